"""Developer tool (not a registered check): validate a seeded change written by a sub-agent and run the
property's check against it.

usage: tools/seeded.py <Cxx> <k> [--tier quick|thorough] [--budget S] [--skip-baseline]
Reads /tmp/seed-<Cxx>-out/patch<k>.diff + demo<k>.py (+README.md).  In a fresh scratch worktree of /repo
(outside /repo and /verif): demo on the clean tree (must exit 0), apply the patch, demo again (must
exit != 0), pinned baseline (must keep all 881), then `./check <Cxx> <tier>` with VERIF_REPO=<worktree>.
Writes /verif/seeded/<Cxx>-<k>/{patch.diff, demo.py, meta.json}.
"""
import json
import os
import shutil
import subprocess
import sys
import tempfile
import time


def sh(cmd, cwd=None, env=None, timeout=3600):
    p = subprocess.run(cmd, cwd=cwd, env=env, shell=isinstance(cmd, str), capture_output=True, text=True, timeout=timeout)
    return p.returncode, p.stdout + p.stderr


def main():
    prop, k = sys.argv[1], sys.argv[2]
    tier = "quick"
    budget = None
    if "--tier" in sys.argv:
        tier = sys.argv[sys.argv.index("--tier") + 1]
    if "--budget" in sys.argv:
        budget = sys.argv[sys.argv.index("--budget") + 1]
    src = f"/tmp/seed-{prop}-out"
    name = f"{prop}-{k}"
    if "--round2" in sys.argv:
        src = f"/tmp/seed2-{prop}-out"
        name = f"{prop}-{int(k) + 2}"
    if any(f"--round{n}" in sys.argv for n in (3, 4, 5, 6, 7, 8, 9, 10)):
        rnd = 10 if "--round10" in sys.argv else 9 if "--round9" in sys.argv else 8 if "--round8" in sys.argv else 7 if "--round7" in sys.argv else 6 if "--round6" in sys.argv else 5 if "--round5" in sys.argv else 4 if "--round4" in sys.argv else 3
        src = f"/tmp/seed{rnd}-{prop}-out"
        name = f"{prop}-{int(k) + 2 * (rnd - 1)}"
    patch = os.path.join(src, f"patch{k}.diff")
    demo = os.path.join(src, f"demo{k}.py")
    out = f"/verif/seeded/{name}"
    os.makedirs(out, exist_ok=True)
    meta_path = os.path.join(out, "meta.json")
    meta = json.load(open(meta_path)) if os.path.exists(meta_path) else {}
    meta.update({"property": prop, "source": "independent sub-agent given only the property record and a scratch worktree"})
    wt = tempfile.mkdtemp(prefix="armi-seeded-", dir="/tmp")
    os.rmdir(wt)
    sh(["git", "-C", "/repo", "worktree", "add", "-q", "--detach", wt, "HEAD"])
    try:
        env = dict(os.environ, PYTHONPATH=wt)
        rc0, o0 = sh(["/venv/bin/python", demo], cwd=wt, env=env, timeout=1200)
        rca, oa = sh(["git", "apply", patch], cwd=wt)
        if rca != 0:
            meta["verdict"] = "rejected: patch does not apply to HEAD"
            meta["apply_output"] = oa[-500:]
            print(meta["verdict"], oa)
            return
        rc1, o1 = sh(["/venv/bin/python", demo], cwd=wt, env=env, timeout=1200)
        meta["demo_clean_exit"] = rc0
        meta["demo_patched_exit"] = rc1
        meta["demo_patched_tail"] = o1.strip().splitlines()[-3:]
        print("demo clean/patched exit:", rc0, rc1)
        if "--skip-baseline" not in sys.argv:
            jx = wt + "-junit.xml"
            sh(f"/venv/bin/python -m pytest -q -p no:cacheprovider --timeout=900 --continue-on-collection-errors --junitxml={jx} > /dev/null 2>&1", cwd=wt, timeout=3000)
            rcb, ob = sh(["/venv/bin/python", "/verif/tools_baseline.py", jx])
            meta["pinned_suite_with_patch"] = ob.strip().splitlines()[0] if ob.strip() else "?"
            print(meta["pinned_suite_with_patch"])
            os.remove(jx)
        envc = dict(os.environ, VERIF_REPO=wt, VERIF_NO_EVIDENCE="1", VERIF_SKIP_FRESH_SELFTEST="1", VERIF_REPLAY_DIR=wt + "-replays")
        if budget:
            envc["VERIF_BUDGET_S"] = budget
        t0 = time.time()
        rcc, oc = sh(["./check", prop, tier], cwd="/verif", env=envc, timeout=7200)
        line = [ln for ln in oc.splitlines() if ln.startswith("[") or "oracle=" in ln or ln.startswith("VIOLATION") or ln.startswith("HARNESS")]
        meta.setdefault("check_runs", []).append({"tier": tier, "budget_s": budget, "exit": rcc, "wall_s": round(time.time() - t0), "output": [x[:400] for x in line][:6]})
        meta["caught_by_" + tier] = rcc == 1
        print("check exit", rcc, "\n".join(line[:4]))
        shutil.copy(patch, os.path.join(out, "patch.diff"))
        shutil.copy(demo, os.path.join(out, "demo.py"))
        if os.path.exists(os.path.join(src, "README.md")):
            shutil.copy(os.path.join(src, "README.md"), os.path.join(out, "agent-README.md"))
        if rc0 == 0 and rc1 != 0:
            meta["verdict"] = "kept: demonstration passes on the clean tree and fails with the change"
        else:
            meta["verdict"] = f"not confirmed: demo exits clean={rc0} patched={rc1}"
    finally:
        with open(meta_path, "w") as f:
            json.dump(meta, f, indent=1)
        sh(["git", "-C", "/repo", "worktree", "remove", "--force", wt])
        shutil.rmtree(wt + "-replays", ignore_errors=True)


if __name__ == "__main__":
    main()
