"""Developer tool: run one property's check against a scratch worktree of /repo with a patch applied.
usage: tools/trypatch.py <Cxx> <patch.diff> [quick|thorough] [extra env K=V ...]"""
import os
import shutil
import subprocess
import sys
import tempfile

prop, patch = sys.argv[1], sys.argv[2]
tier = sys.argv[3] if len(sys.argv) > 3 and "=" not in sys.argv[3] else "quick"
wt = tempfile.mkdtemp(prefix="armi-try-", dir="/tmp")
os.rmdir(wt)
subprocess.run(["git", "-C", "/repo", "worktree", "add", "-q", "--detach", wt, "HEAD"], check=True)
try:
    subprocess.run(["git", "-C", wt, "apply", os.path.abspath(patch)], check=True)
    env = dict(os.environ, VERIF_REPO=wt, VERIF_NO_EVIDENCE="1", VERIF_SKIP_FRESH_SELFTEST="1", VERIF_REPLAY_DIR=wt + "-replays")
    for a in sys.argv[3:]:
        if "=" in a:
            k, v = a.split("=", 1)
            env[k] = v
    p = subprocess.run(["./check", prop, tier], cwd="/verif", env=env, capture_output=True, text=True)
    lines = [ln[:500] for ln in (p.stdout + p.stderr).splitlines() if not ln.startswith("KNOWN")]
    print("\n".join(lines[-6:]))
    print("exit", p.returncode)
finally:
    subprocess.run(["git", "-C", "/repo", "worktree", "remove", "--force", wt])
    shutil.rmtree(wt + "-replays", ignore_errors=True)
