"""Developer tool: large-sample determinism check.  For every world, the event-log digests of N plans are
computed twice in fresh interpreters - PYTHONHASHSEED=0 with 8 workers, and another hash seed with 3
workers - and compared.  usage: tools/determinism.py [N] [seed] [Cxx ...]"""
import json
import os
import subprocess
import sys

N = int(sys.argv[1]) if len(sys.argv) > 1 else 24
SEED = sys.argv[2] if len(sys.argv) > 2 else "3"
PROPS = sys.argv[3:] or ["C01", "C02", "C03", "C04", "C05", "C06", "C12", "C13", "C14", "C15", "C16"]
bad = 0
for p in PROPS:
    idxs = ",".join(str(i) for i in range(N))
    out = []
    for hs, w in (("0", "8"), ("4242", "3")):
        env = dict(os.environ, PYTHONHASHSEED=hs, VERIF_WORKERS=w)
        r = subprocess.run(["/venv/bin/python", "check.py", "digests", p, "quick", SEED, idxs], cwd="/verif", env=env, capture_output=True, text=True, timeout=3600)
        line = next((ln for ln in r.stdout.splitlines() if ln.startswith("DIGESTS ")), None)
        out.append(json.loads(line[8:]) if line else {"error": (r.stdout + r.stderr)[-300:]})
    diff = [i for i in out[0] if out[0].get(i) != out[1].get(i)]
    empty = [i for i in out[0] if not out[0].get(i)]
    print(p, "plans", N, "diverged", diff, "without digest", empty[:5], flush=True)
    bad += len(diff)
sys.exit(1 if bad else 0)
