"""Sensitivity validation (developer tool, not a registered check): apply small semantic mutants to a
scratch worktree of /repo (outside /repo and /verif), run the property's check against it, expect a
VIOLATION, remove the worktree.   usage: tools/mutants.py [name-substring ...] [--tier quick]"""
import os, subprocess, sys, tempfile, shutil, time

M = []
def mut(name, prop, path, old, new, count=1):
    M.append((name, prop, path, old, new, count))

# ---- C06
mut("c06_skip_error_snapshot", "C06", "armi/bookkeeping/db/databaseInterface.py",
    '            self._db.writeToDB(self.r, "error")\n', '')
mut("c06_close_true_on_error", "C06", "armi/bookkeeping/db/databaseInterface.py",
    '            self._db.writeToDB(self.r, "error")\n            self._db.close(False)', '            self._db.writeToDB(self.r, "error")\n            self._db.close(True)')
mut("c06_merge_off_by_one", "C06", "armi/bookkeeping/db/database.py",
    "            if cyc == startCycle and tn == startNode:\n                # all data up to current state are merged\n                return\n            self.h5db.copy(h5ts, h5ts.name)\n",
    "            self.h5db.copy(h5ts, h5ts.name)\n            if cyc == startCycle and tn == startNode:\n                # all data up to current state are merged\n                return\n")
mut("c06_drop_unsuccessful_at_open", "C06", "armi/bookkeeping/db/database.py",
    '        self.h5db.attrs["successfulCompletion"] = False\n', '        self.h5db.attrs["successfulCompletion"] = True\n')
mut("c06_history_by_layout_index", "C06", "armi/bookkeeping/db/database.py",
    "                for ii, sn in zip(layoutIndexInData, serialNumsForType):\n                    d = compsBySerialNum.get(sn, None)",
    "                for ii, sn in zip(layoutIndexInData, sorted(serialNumsForType)):\n                    d = compsBySerialNum.get(sn, None)")
mut("c06_drop_already_written_refusal", "C06", "armi/bookkeeping/db/layout.py",
    '        if "layout/type" in h5group:\n            # It looks like we have already written the layout to DB, skip for now\n            return\n',
    '        if "layout/type" in h5group:\n            for _k in list(h5group.keys()):\n                del h5group[_k]\n')
mut("c06_eol_not_written_when_halted", "C06", "armi/bookkeeping/db/databaseInterface.py",
    '        self._db.writeToDB(self.r, "EOL")\n', '        if self.r.p.timeNode > 0:\n            self._db.writeToDB(self.r, "EOL")\n')
mut("c06_sync_copy_stale_on_error", "C06", "armi/bookkeeping/db/database.py",
    "            newPath = safeMove(self._fullPath, self._fileName)\n", "            newPath = safeMove(self._fullPath, self._fileName) if completedSuccessfully or not os.path.exists(self._fileName) else self._fileName\n")
# ---- C15
mut("c15_skip_last_node_cycle2", "C15", "armi/operators/operator.py",
    "            self.r.core.p.power = powFrac * basicPower\n            self._timeNodeLoop(cycle, timeNode)\n",
    "            self.r.core.p.power = powFrac * basicPower\n            if cycle != 2:\n                self._timeNodeLoop(cycle, timeNode)\n")
mut("c15_eol_reversal_swapped", "C15", "armi/operators/operator.py",
    "            actInts.extend(reversed([ii for ii in activeInterfaces if ii.reverseAtEOL]))", "            actInts.extend([ii for ii in activeInterfaces if ii.reverseAtEOL])")
mut("c15_defer_at_everynode", "C15", "armi/operators/operator.py",
    '        if interactState in ("EveryNode", "EOC", "EOL"):\n            nameCheck = lambda i: i.name not in excludedInterfaceNames',
    '        if interactState in ("EveryNode", "EOC", "EOL"):\n            nameCheck = lambda i: i.name not in excludedInterfaceNames and not (interactState == "EveryNode" and cycle < self.cs[CONF_DEFERRED_INTERFACES_CYCLE] and self.r.p.cycle < self.cs[CONF_DEFERRED_INTERFACES_CYCLE] and i.name in self.cs[CONF_DEFERRED_INTERFACE_NAMES])')
mut("c15_later_cycles_start_at_startnode", "C15", "armi/operators/operator.py",
    "        else:\n            startingNode = 0\n            self.r.p.timeNode = startingNode\n", "        else:\n            startingNode = self.cs[\"startNode\"] if self.cs[\"loadStyle\"] != \"fromInput\" else 0\n            self.r.p.timeNode = startingNode\n")
mut("c15_ignore_nonconverged_coupler", "C15", "armi/operators/operator.py",
    "        return all(converged)\n", "        return all(converged[:1])\n")
mut("c15_cumulative_node_off", "C15", "armi/utils/__init__.py",
    "    return sum(nodesPerCycle[:cycle]) + node\n", "    return sum(nodesPerCycle[:cycle]) + node + (1 if cycle > 1 else 0)\n")
mut("c15_halt_short_circuit_back", "C15", "armi/operators/operator.py",
    "                halt = interactMethod(*args) or halt\n", "                halt = halt or interactMethod(*args)\n")
# ---- C04
mut("c04_location_permute", "C04", "armi/bookkeeping/db/layout.py",
    "            locDatum = [loc.getCompleteIndices()]\n", "            _ci = loc.getCompleteIndices()\n            locDatum = [(_ci[1], _ci[0], _ci[2])]\n")
mut("c04_temperature_swap", "C04", "armi/bookkeeping/db/layout.py",
    '                kwargs["Tinput"] = temperatures[0]\n                kwargs["Thot"] = temperatures[1]\n', '                kwargs["Tinput"] = temperatures[0]\n                kwargs["Thot"] = temperatures[0] if temperatures[1] > 460 else temperatures[1]\n')
mut("c04_drop_param_for_class", "C04", "armi/bookkeeping/db/database.py",
    "        for paramDef in c.p.paramDefs.toWriteToDB():\n            attrs = {}\n", "        for paramDef in c.p.paramDefs.toWriteToDB():\n            attrs = {}\n            if paramDef.name == 'vP2' and groupName == 'HexAssembly':\n                continue\n")
mut("c04_linked_dim_lost", "C04", "armi/bookkeeping/db/database.py",
    '                    if linkedDim != "":\n                        c.p[paramName] = linkedDim\n', '                    if linkedDim != "" and paramName != "mult":\n                        c.p[paramName] = linkedDim\n')

# ---- C05
mut("c05_int_sentinel_wrong_on_read", "C05", "armi/bookkeeping/db/layout.py",
    "        isNone = data == np.iinfo(data.dtype).min + 2\n", "        isNone = data == np.iinfo(data.dtype).min + 1\n")
mut("c05_jagged_offsets_reversed", "C05", "armi/bookkeeping/db/database.py",
    '        attrs["offsets"] = arrayData.offsets\n', '        attrs["offsets"] = arrayData.offsets[::-1]\n')
mut("c05_flag_remap_ignores_order", "C05", "armi/reactor/composites.py",
    "        if all(i == j for i, j in zip(flagOrderPassed, flagOrderNow)):\n", "        if True:\n")
mut("c05_dict_nan_to_zero", "C05", "armi/bookkeeping/db/database.py",
    "                {key: value for key, value in zip(keys, d) if not np.isnan(value)}\n", "                {key: value for key, value in zip(keys, d)}\n")
mut("c05_jagged_empty_not_none", "C05", "armi/bookkeeping/db/jaggedArray.py",
    "        numElements = len(shapeIndices) + len(self.nones)\n", "        numElements = len(shapeIndices) + len(self.nones) - (1 if len(self.nones) > 2 else 0)\n")
mut("c05_unsigned_fix_reverted", "C05", "armi/bookkeeping/db/layout.py",
    "    elif np.issubdtype(data.dtype, np.unsignedinteger):\n        isNone = data == np.iinfo(data.dtype).max - 2\n", "")
mut("c05_str_bytes_not_decoded_in_nones", "C05", "armi/bookkeeping/db/layout.py",
    '        isNone = data == "<!None!>"\n', '        isNone = data == "<!None!>"\n        data = np.char.upper(data)\n')


def run(names, tier):
    res = []
    for name, prop, path, old, new, count in M:
        if names and not any(n in name for n in names):
            continue
        wt = tempfile.mkdtemp(prefix="armi-mut-", dir="/tmp")
        os.rmdir(wt)
        subprocess.run(["git", "-C", "/repo", "worktree", "add", "-q", "--detach", wt, "HEAD"], check=True, capture_output=True)
        try:
            fp = os.path.join(wt, path)
            s = open(fp).read()
            if s.count(old) != count:
                res.append((name, prop, "PATCH-MISMATCH", 0)); continue
            open(fp, "w").write(s.replace(old, new))
            env = dict(os.environ, VERIF_REPO=wt, VERIF_NO_EVIDENCE="1", VERIF_SKIP_FRESH_SELFTEST="1", VERIF_REPLAY_DIR=wt + "-replays")
            t0 = time.time()
            p = subprocess.run(["./check", prop, tier], cwd="/verif", env=env, capture_output=True, text=True)
            line = next((l for l in p.stdout.splitlines() if "oracle=" in l), "")
            res.append((name, prop, {0: "MISSED", 1: "caught", 2: "HARNESS"}.get(p.returncode, str(p.returncode)), round(time.time() - t0), line.strip()[:160]))
            print(res[-1], flush=True)
        finally:
            subprocess.run(["git", "-C", "/repo", "worktree", "remove", "--force", wt], capture_output=True)
            shutil.rmtree(wt + "-replays", ignore_errors=True)
    return res

if __name__ == "__main__":
    args = [a for a in sys.argv[1:] if not a.startswith("--")]
    tier = "quick"
    if "--tier" in sys.argv: tier = sys.argv[sys.argv.index("--tier") + 1]; args = [a for a in args if a != tier]
    r = run(args, tier)
    print("caught", sum(1 for x in r if x[2] == "caught"), "of", len(r))
