"""Developer tool: compare a junit xml against BASELINE.json's stable_pass list."""
import json, sys, xml.etree.ElementTree as ET
base = json.load(open('/root/.vp/BASELINE.json'))
stable = set(base['stable_pass'])
t = ET.parse(sys.argv[1]).getroot()
passed = set()
for tc in t.iter('testcase'):
    name = tc.get('classname') + '::' + tc.get('name')
    if not any(ch.tag in ('failure', 'error', 'skipped') for ch in tc):
        passed.add(name)
missing = sorted(stable - passed)
print('stable', len(stable), 'passed', len(passed), 'stable-but-not-passed', len(missing))
for m in missing[:40]: print('  ', m)
