"""Developer aid: run one plan index of a property in-process-forked with output visible."""
import os, sys, json
sys.path.insert(0, os.path.dirname(os.path.abspath(__file__)))
os.environ["VERIF_CHILD_OUTPUT"] = "1"
from sim import kernel, driver
import check
prop = sys.argv[1]; i = int(sys.argv[2]); tier = "quick"
base = int(os.environ.get("VERIF_SEED", "0"))
world = check.load_world(prop)
if hasattr(world, "prepare"): world.prepare()
s = kernel.subseed(base, prop, i)
p = world.gen_plan(kernel.rng_for(s), i, tier)
p.update({"property": prop, "seed": s, "index": i, "hashseed": "0"})
print(json.dumps(p)[:3000])
r = driver.execute_plans(world, [p], 1, float(os.environ.get("T", "40")))[0]
print({k: v for k, v in r.items() if k not in ("stats",)})
if os.environ.get("MIN") == "1" and r["status"] == "violation":
    os.environ.pop("VERIF_CHILD_OUTPUT", None)
    mp, mr, tried = driver.minimise(world, p, r, 120, 120, 16)
    print("MINIMISED after", tried, "trials")
    print(json.dumps({"config": mp["config"], "steps": mp["steps"]}))
    print(mr["msg"][:600])
