"""C02 — mass, volume and number densities are accounted consistently at every level.

World B (weakest fit, see DESIGN.md §4): the laws are pointwise; the history selects the state at
which they are evaluated.  History = composition edits (set / update / scale number densities, set
mass fractions, add / set / remove mass) at component, block, assembly and core level on generated
hex cores (full and third symmetry, so that cut blocks occur).  After every edit: the edit's own
read-back law, and the additivity laws at every level, from primitive per-component observations.
"""
import copy

from sim import driver, kernel
from sim.kernel import OracleFailure
from worlds import c06, c14, enginea
from sim import inputs

PROPERTY = "C02"
WORLD = "B"
RULE = (
    "one run = generated hex core (full or third symmetry incl. the cut centre assembly, 1-2 rings, 1-2 fuel "
    "blocks, grid plate / plenum on/off) and 4-30 composition edits (setNumberDensity, updateNumberDensities, "
    "setNumberDensities, changeNDensByFactor, setMassFrac, addMass, setMass, removeMass) at component / block / "
    "assembly / core level; after every edit the read-back law of that edit and the additivity / density x "
    "volume / mass-fraction laws at every level; distinct = hash of (level, op) sequence and symmetry; "
    "non-trivial = at least one edit was applied"
)
REAL = [
    "ArmiObject.getNuclideNumberDensities/getNumberDensities/getMass/getMassFracs/setNumberDensity/updateNumberDensities/setNumberDensities/changeNDensByFactor/setMassFracs/addMass/setMass/density/getNumberOfAtoms",
    "Component.getMass/setNumberDensity/updateNumberDensities/changeNDensByFactor/getVolume",
    "Block.getVolume/getSymmetryFactor, Assembly.getVolume, densityTools conversions",
    "blueprints -> reactor (generated hex cores, full and third symmetry)",
]
STUB = ["no operator run, no clock, no I/O in this world"]
ASSUMPTIONS = [
    "relative tolerance 1e-9 on sums over children",
    "edits name nuclides that exist in the edited object (else the API refuses by contract)",
    "atomic weights and Avogadro's constant are taken from armi's own tables (C19's subject), the arithmetic is independent",
]
TIERS = {"quick": (120, 80, 150), "thorough": (8000, 600, 200)}
TOL = 1e-9
OPS = ["setNumberDensity", "updateNumberDensities", "setNumberDensities", "changeNDensByFactor", "setMassFrac", "addMass", "setMass", "removeMass", "adjustMassFrac"]


def gen_plan(rng, index, tier):
    sym = rng.choice(["full", "third periodic", "third periodic"])
    rings = rng.choice([1, 2, 2, 3])
    bp = {"rings": rings, "symmetry": sym, "nfuel": rng.choice([1, 2]), "plate": rng.random() < 0.4, "plenum": rng.random() < 0.4, "sfp": False, "geom": rng.choice(["hex", "hex_corners_up"])}
    if sym != "full":
        bp["third"] = True
        if rng.random() < 0.08:
            # a larger map: two assemblies on each symmetry line, possibly without the inner one
            rings = bp["rings"] = 5
            if rng.random() < 0.6:
                bp["holes"] = [[2, -1]] + ([[1, 1]] if rng.random() < 0.3 else [])
        elif rings == 3 and rng.random() < 0.5:
            # maps with empty positions (also on the symmetry lines)
            cand = [(0, 1), (0, 2), (1, 0), (1, 1), (2, -1), (2, 0)]  # first third of three rings, without the centre
            bp["holes"] = [list(c) for c in rng.sample(cand, rng.randint(1, 2))]
    if rng.random() < 0.3:
        # Cartesian cores: full (centred on an assembly or on a corner) and quarter (the centre
        # assembly is a quarter, the assemblies on the axes are halves; or nothing is cut)
        sym = rng.choice(["full", "full", "quarter reflective through center assembly", "quarter periodic through center assembly", "quarter reflective"])
        bp = {"rings": rng.choice([1, 2, 2, 3]) if sym != "full" else rng.choice([1, 2]), "symmetry": sym, "nfuel": rng.choice([1, 2]), "plate": rng.random() < 0.4, "plenum": rng.random() < 0.4, "sfp": False, "geom": "cartesian"}
        if sym == "full" and rng.random() < 0.4:
            bp["even"] = True
    if rng.random() < 0.3:
        bp["solid_plate"] = True  # a bottom block that is one solid piece (no coolant filling up the pitch)
    if rng.random() < 0.2:
        bp["voidgap"] = True  # the fuel slug has outgrown the cladding's bore: a Void gap of negative volume
    cfg = {"reactor": "gen", "blueprint": bp, "settings": {"nCycles": 1, "burnSteps": 1}, "actors": []}
    steps = []
    for _ in range(rng.randint(4, 30)):
        if rng.random() < 0.06:
            # a solid component changes temperature (its neighbours' linked dimensions and the coolant
            # that fills the rest of the pitch follow); the first look afterwards is at an area
            steps.append({"op": "heat", "level": "component", "idx": rng.randrange(1000), "nuc": 0, "nuc2": 0, "f": 1.0, "frac": 0.1, "mass": 1.0, "T": rng.choice([400.0, 520.0, 650.0]), "look": rng.choice(["area", "volume"])})
            continue
        if rng.random() < 0.06:
            # one block of an assembly is stretched or squeezed (axial expansion does that)
            steps.append({"op": "height", "level": "block", "idx": rng.randrange(1000), "nuc": 0, "nuc2": 0, "f": rng.choice([0.8, 1.15, 1.4]), "frac": 0.1, "mass": 1.0})
            continue
        if rng.random() < 0.05:
            # the fuel changes temperature, somebody reads the volume of the bond next to it (only
            # that), and the fuel changes temperature again
            steps.append({"op": "heat2", "level": "component", "idx": rng.randrange(1000), "nuc": 0, "nuc2": 0, "f": 1.0, "frac": 0.1, "mass": 1.0, "T": rng.choice([420.0, 560.0]), "T2": rng.choice([480.0, 700.0])})
            continue
        if rng.random() < 0.05:
            # a lumped fission product / dummy nuclide appears in a fuel component (truncated depletion chains do that)
            steps.append({"op": "dump", "level": "component", "idx": rng.randrange(1000), "nuc": 0, "nuc2": 0, "f": 1.0, "frac": 0.1, "mass": 1.0, "which": rng.choice(["DUMP1", "DUMP2", "LFP35"])})
            continue
        if rng.random() < 0.06:
            # somebody asks for cold (as-input) areas in between; no edit
            steps.append({"op": "coldarea", "level": "block", "idx": rng.randrange(1000), "nuc": 0, "nuc2": 0, "f": 1.0, "frac": 0.1, "mass": 1.0})
            continue
        if rng.random() < 0.04:
            steps.append({"op": "rmblock", "level": "assembly", "idx": rng.randrange(1000), "nuc": 0, "nuc2": 0, "f": 1.0, "frac": 0.1, "mass": 1.0})
            continue
        if rng.random() < 0.04:
            steps.append({"op": "takeout", "level": "core", "idx": rng.randrange(1000), "nuc": 0, "nuc2": 0, "f": 1.0, "frac": 0.1, "mass": 1.0})
            continue
        if bp["geom"] != "cartesian" and sym != "full" and rng.random() < 0.12:
            # edge assemblies on / off: blocks on the symmetry lines become half blocks (and back);
            # the core's mass and volume must not change
            steps.append({"op": "edge", "level": "core", "idx": 0, "nuc": 0, "nuc2": 0, "f": 1.0, "frac": 0.1, "mass": 1.0})
            continue
        steps.append(
            {
                "op": rng.choice(OPS),
                "level": rng.choice(["component", "component", "block", "block", "assembly", "core"]),
                "idx": rng.randrange(1000),
                "nuc": rng.randrange(1000),
                "nuc2": rng.randrange(1000),
                "f": rng.choice([0.0, 0.25, 0.5, 0.9, 1.1, 2.0, 7.5]),
                "frac": rng.choice([0.01, 0.1, 0.3, 0.6]),
                "mass": rng.choice([0.5, 10.0, 250.0]),
            }
        )
    return {"config": cfg, "steps": steps}


def simplify(plan):
    bp = plan["config"]["blueprint"]
    for key, simple in (("plate", False), ("plenum", False), ("nfuel", 1), ("rings", 1), ("geom", "hex")):
        if key == "geom" and bp.get("geom") == "cartesian":
            continue
        if bp.get(key) != simple:
            p = copy.deepcopy(plan)
            p["config"]["blueprint"][key] = simple
            yield p
    for i, s in enumerate(plan["steps"]):
        if s["level"] != "component":
            p = copy.deepcopy(plan)
            p["steps"][i]["level"] = {"core": "assembly", "assembly": "block", "block": "component"}[s["level"]]
            yield p


def rel(a, b, tol=TOL):
    return abs(a - b) <= tol * max(abs(a), abs(b), 1e-300) or (abs(a) < 1e-30 and abs(b) < 1e-30)


class Runner:
    def __init__(self, plan, o, log):
        from armi.nucDirectory import nucDir
        from armi.utils import units

        self.plan = plan
        self.r = o.r
        self.core = o.r.core
        self.log = log
        self.findings = driver.load_findings()
        self.known = {}
        self.probes = {}
        self.applied = 0
        self.edges_present = False
        self.outside = []  # assemblies taken out of the core (whole again: no symmetry cut)
        self.sig = []
        self.aw = nucDir.getAtomicWeight
        self.K = units.MOLES_PER_CC_TO_ATOMS_PER_BARN_CM

    def probe(self, k):
        self.probes[k] = self.probes.get(k, 0) + 1

    def fail(self, oracle, msg, **det):
        f = driver.match_finding(self.findings, PROPERTY, {"oracle": oracle, "detail": det})
        if f is not None:
            self.known[f["id"]] = self.known.get(f["id"], 0) + 1
            return
        raise OracleFailure(oracle, msg, det)

    def expected_cut(self, a):
        """Which fraction of an assembly the model holds, from the blueprint alone: 1/n -> n.  Returns
        None where the statement leaves it to the presence of edge assemblies (hex, off-centre)."""
        bp = self.plan["config"]["blueprint"]
        sym = bp.get("symmetry", "full")
        i, j = (int(x) for x in a.spatialLocator.getCompleteIndices()[:2])
        if sym == "full":
            return 1.0
        if bp.get("geom") == "cartesian":
            if "through center" not in sym:
                return 1.0
            return 4.0 if (i, j) == (0, 0) else 2.0 if 0 in (i, j) else 1.0
        if (i, j) == (0, 0):
            return 3.0
        return None if self.edges_present else 1.0

    # ---- additivity laws at every level, from per-component primitives
    def check_levels(self, k, st):
        core = self.core
        core_mass = {}
        core_vol = 0.0
        for a in list(core) + list(self.outside):
            a_mass = {}
            a_vol = 0.0
            a_atoms = {}
            inside = a.parent is core
            want_sf = self.expected_cut(a) if inside else 1.0
            for b in a:
                sf = float(b.getSymmetryFactor())
                if want_sf is not None and sf != want_sf:
                    if not inside:
                        self.fail("C02.symmetry", f"step {k}: block {b.getName()} of an assembly taken out of the core reports symmetry factor {sf}", what="factor-outside")
                    self.fail("C02.symmetry", f"step {k}: block {b.getName()} of the assembly at {tuple(int(x) for x in a.spatialLocator.getCompleteIndices()[:2])} reports symmetry factor {sf}; in a {self.plan['config']['blueprint'].get('symmetry')} {self.plan['config']['blueprint'].get('geom')} core it is 1/{want_sf:g} of a block", what="factor", geom=str(self.plan["config"]["blueprint"].get("geom")), symmetry=str(self.plan["config"]["blueprint"].get("symmetry")))
                comps = list(b)
                vols = [float(c.getVolume()) for c in comps]
                b_vol = sum(vols) / sf
                nucs = sorted(b.getNuclides())
                b_mass = {}
                b_atoms = {}
                for c, v in zip(comps, vols):
                    nd = c.getNumberDensities()
                    for nuc, n in nd.items():
                        m = float(n) * (v / sf) * self.aw(nuc) / self.K
                        got = float(c.getMass(nuc))
                        if not rel(got, m):
                            self.fail("C02.mass", f"step {k}: {c.name}.getMass({nuc}) = {got}, density x volume / symmetry x weight = {m}", what="component-mass", level="component")
                        b_mass[nuc] = b_mass.get(nuc, 0.0) + got
                        b_atoms[nuc] = b_atoms.get(nuc, 0.0) + float(n) * v / sf
                h = float(b.getHeight())
                for c, v in zip(comps, vols):
                    if type(c).__name__ not in ("Helix",) and not rel(v, float(c.getArea()) * h, 1e-9):
                        self.fail("C02.volume", f"step {k}: {c.name} of {b.getName()}: volume {v} != area x height {float(c.getArea()) * h}", what="area-height", level="component")
                if not rel(float(b.getVolume()), b_vol):
                    self.fail("C02.volume", f"step {k}: block volume {float(b.getVolume())} != sum of components / symmetry factor {b_vol}", what="volume", level="block")
                nds = b.getNuclideNumberDensities(nucs) if nucs else []
                for nuc, n_b in zip(nucs, nds):
                    if not rel(float(b.getMass(nuc)), b_mass.get(nuc, 0.0)):
                        self.fail("C02.additivity", f"step {k}: block mass of {nuc} {float(b.getMass(nuc))} != sum over components {b_mass.get(nuc, 0.0)}", what="mass", level="block")
                    if not rel(float(n_b) * b_vol, b_atoms.get(nuc, 0.0)):
                        self.fail("C02.additivity", f"step {k}: block density x volume of {nuc} {float(n_b) * b_vol} != sum over components {b_atoms.get(nuc, 0.0)}", what="atoms", level="block")
                # selections that name nothing that is there: an empty list, a nuclide the block does not hold
                for spec, label in (([], "[]"), (["CM247"], "['CM247']")):
                    if spec and spec[0] in b_mass:
                        continue
                    for obj_, lvl_ in ((b, "block"), (comps[0], "component")):
                        m_none = float(obj_.getMass(spec))
                        if m_none != 0.0:
                            self.fail("C02.additivity", f"step {k}: {lvl_} getMass({label}) = {m_none}; the selection names nothing that is present", what="empty-selection", level=lvl_)
                # overlapping entries in one selection (an element and one of its isotopes, a nuclide twice)
                # name each nuclide once
                ov = next((n for n in sorted(b_mass) if n.startswith("U2") or n.startswith("ZR9")), None)
                if ov is not None and sum(b_mass.values()) > 0:
                    elem = "U" if ov.startswith("U") else "ZR"
                    f_e, f_l, f_2 = float(b.getMassFrac(elem)), float(b.getMassFrac([elem, ov])), float(b.getMassFrac([ov, ov]))
                    if not rel(f_l, f_e, 1e-9) or not rel(f_2, float(b.getMassFrac(ov)), 1e-9):
                        self.fail("C02.massfrac", f"step {k}: block getMassFrac(['{elem}', '{ov}']) = {f_l} but getMassFrac('{elem}') = {f_e}; getMassFrac(['{ov}', '{ov}']) = {f_2} but getMassFrac('{ov}') = {float(b.getMassFrac(ov))}", what="overlapping-selection", level="block")
                # an element selection names every nuclide of that element that is there (natural or not)
                for elem, prefix in (("U", "U2"), ("ZR", "ZR"), ("PU", "PU2")):
                    iso = [n for n in b_mass if n.startswith(prefix)]
                    if iso and not rel(float(b.getMass(elem)), sum(b_mass[n] for n in iso)):
                        self.fail("C02.additivity", f"step {k}: block getMass('{elem}') {float(b.getMass(elem))} != sum over its nuclides {sorted(iso)} {sum(b_mass[n] for n in iso)}", what="element", level="block")
                tot = float(b.getMass())
                if not rel(tot, sum(b_mass.values())):
                    self.fail("C02.additivity", f"step {k}: block total mass {tot} != sum over nuclides {sum(b_mass.values())}", what="total", level="block")
                if tot > 0:
                    mf = b.getMassFracs()
                    s = sum(float(v) for v in mf.values())
                    if not rel(s, 1.0):
                        self.fail("C02.massfrac", f"step {k}: block mass fractions sum to {s}", what="sum", level="block")
                    for nuc in nucs[:4]:
                        if not rel(float(mf.get(nuc, 0.0)), b_mass.get(nuc, 0.0) / sum(b_mass.values()), 1e-8):
                            self.fail("C02.massfrac", f"step {k}: block mass fraction of {nuc} {float(mf.get(nuc, 0.0))} != mass ratio {b_mass.get(nuc, 0.0) / sum(b_mass.values())}", what="ratio", level="block")
                for nuc, m in b_mass.items():
                    a_mass[nuc] = a_mass.get(nuc, 0.0) + m
                    a_atoms[nuc] = a_atoms.get(nuc, 0.0) + b_atoms[nuc]
                a_vol += b_vol
            for nuc in sorted(a_mass)[:6]:
                if not rel(float(a.getMass(nuc)), a_mass[nuc]):
                    self.fail("C02.additivity", f"step {k}: assembly mass of {nuc} {float(a.getMass(nuc))} != sum over blocks {a_mass[nuc]}", what="mass", level="assembly")
                n_a = float(a.getNumberDensity(nuc))
                if a_vol and not rel(n_a * a_vol, a_atoms[nuc]):
                    self.fail("C02.additivity", f"step {k}: assembly density x volume of {nuc} {n_a * a_vol} != sum over blocks {a_atoms[nuc]}", what="atoms", level="assembly")
            if not rel(float(a.getVolume()), a_vol):
                self.fail("C02.volume", f"step {k}: assembly volume {float(a.getVolume())} != sum of block volumes {a_vol}" + ("" if inside else " (an assembly taken out of the core)"), what="volume", level="assembly", inside=inside)
            if not inside:
                continue
            for nuc, m in a_mass.items():
                core_mass[nuc] = core_mass.get(nuc, 0.0) + m
            core_vol += a_vol
        for nuc in sorted(core_mass)[:6]:
            if not rel(float(core.getMass(nuc)), core_mass[nuc]):
                self.fail("C02.additivity", f"step {k}: core mass of {nuc} {float(core.getMass(nuc))} != sum over assemblies {core_mass[nuc]}", what="mass", level="core")
        tot = float(core.getMass())
        if not rel(tot, sum(core_mass.values())):
            self.fail("C02.additivity", f"step {k}: core total mass {tot} != sum {sum(core_mass.values())}", what="total", level="core")
        # nuclide selections: list and element
        zr = [n for n in core_mass if n.startswith("ZR")]
        if zr:
            if not rel(float(core.getMass(zr)), sum(core_mass[n] for n in zr)):
                self.fail("C02.additivity", f"step {k}: core.getMass({zr}) != sum of the single-nuclide masses", what="list", level="core")
            if not rel(float(core.getMass("ZR")), sum(core_mass[n] for n in zr)):
                self.fail("C02.additivity", f"step {k}: core.getMass('ZR') {float(core.getMass('ZR'))} != sum over its isotopes {sum(core_mass[n] for n in zr)}", what="element", level="core")

    def check_conversions(self, k, obj):
        from armi.utils import densityTools

        nd = {n: float(v) for n, v in obj.getNumberDensities().items() if v > 0}
        if not nd:
            return
        rho = densityTools.calculateMassDensity(nd)
        fr = densityTools.getMassFractions(nd)
        back = densityTools.getNDensFromMasses(rho, fr)
        for n, v in nd.items():
            if not rel(float(back.get(n, 0.0)), v, 1e-10):
                self.fail("C02.conversion", f"step {k}: number density -> (density, mass fractions) -> number density changes {n}: {v} -> {back.get(n)}", what="roundtrip")
        if not rel(float(obj.density()), rho, 1e-9):
            self.fail("C02.conversion", f"step {k}: density() {float(obj.density())} != mass density of the number densities {rho}", what="density")

    # ---- edits and their read-back laws
    def target(self, st):
        objs = c06.objects_at_level(self.r, st["level"])
        return objs[st["idx"] % len(objs)]

    def edge(self, k, st):
        from armi.reactor.converters import geometryConverters as gc

        core = self.core
        if core.isFullCore or self.plan["config"]["blueprint"].get("geom") == "cartesian":
            return False
        # add and remove in one step: between the two the twin assemblies on the symmetry lines must
        # stay identical, so no composition edit may come in between
        m0, v0, mu0 = float(core.getMass()), float(core.getVolume()), float(core.getMass("U235"))
        edger = gc.EdgeAssemblyChanger()
        for what in ("addEdgeAssemblies", "removeEdgeAssemblies"):
            getattr(edger, what)(core)
            self.edges_present = what == "addEdgeAssemblies"
            m1, v1, mu1 = float(core.getMass()), float(core.getVolume()), float(core.getMass("U235"))
            self.probe("edge_" + what)
            for nm, a, b in (("total mass", m0, m1), ("volume", v0, v1), ("U235 mass", mu0, mu1)):
                if not rel(a, b):
                    probe_empty = core.childrenByLocator.get(core.spatialGrid[-1, 2, 0]) is None
                    self.fail("C02.symmetry", f"step {k}: {what} changed the core's {nm}: {a} -> {b} (blocks cut by symmetry lines must count with their symmetry factor)" + (" [location (-1, 2), by which armi decides whether edge assemblies are present, is empty: its twin (2, -1) is a hole in this map]" if probe_empty and what == "addEdgeAssemblies" else ""), what=nm.split()[-1], op=what, edgeProbeLocationEmpty=bool(probe_empty and what == "addEdgeAssemblies"))
            if what == "addEdgeAssemblies":
                self.check_levels(k, st)
        self.sig.append(("core", "edge"))
        return True

    def caller_dict_is_not_the_model(self, k, obj, arg, op, lvl):
        """What the caller does with its own dict after the call is none of the model's business."""
        got0 = {n: float(obj.getNumberDensity(n)) for n in arg}
        for n in list(arg):
            arg[n] = 0.123456
        for n in got0:
            got = float(obj.getNumberDensity(n))
            if not rel(got, got0[n]):
                self.fail("C02.readback", f"step {k}: after {op} at {lvl} level the caller changed its own dict and {n} now reads {got} instead of {got0[n]}", what="aliased-argument", op=op, level=lvl)
                return
        self.probe("caller_dict_mutated_after_call")

    def apply(self, k, st):
        if st["op"] == "edge":
            return self.edge(k, st)
        if st["op"] == "heat":
            from armi.reactor.components import DerivedShape

            comps = [c for c in c06.objects_at_level(self.r, "component") if not isinstance(c, DerivedShape) and c.containsSolidMaterial() and c.name in ("fuel", "clad", "wire")]
            if not comps:
                return False
            c = comps[st["idx"] % len(comps)]
            c.setTemperature(st["T"])
            if st["look"] == "area":
                c.parent.getArea()
                c.parent.parent.getVolume()
            self.probe("component_heated")
            self.sig.append(("component", "heat"))
            return True
        if st["op"] == "height":
            blks = c06.objects_at_level(self.r, "block")
            b = blks[st["idx"] % len(blks)]
            b.setHeight(float(b.getHeight()) * st["f"])
            b.parent.calculateZCoords()
            self.probe("block_height_changed")
            self.sig.append(("block", "height"))
            return True
        if st["op"] == "heat2":
            blks = [b for b in c06.objects_at_level(self.r, "block") if b.getComponentByName("fuel") is not None and b.getComponentByName("bond") is not None]
            if not blks:
                return False
            b = blks[st["idx"] % len(blks)]
            fuel, bond = b.getComponentByName("fuel"), b.getComponentByName("bond")
            fuel.setTemperature(st["T"])
            bond.getVolume()
            fuel.setTemperature(st["T2"])
            self.probe("fuel_heated_twice_with_a_look_at_the_bond")
            self.sig.append(("component", "heat2"))
            return True
        if st["op"] == "dump":
            comps = [c for c in c06.objects_at_level(self.r, "component") if c.name == "fuel"]
            if not comps:
                return False
            c = comps[st["idx"] % len(comps)]
            c.setNumberDensity(st["which"], 1.0e-4)
            got = float(c.getNumberDensity(st["which"]))
            if not rel(got, 1.0e-4):
                self.fail("C02.readback", f"step {k}: setNumberDensity({st['which']}, 1e-4) at component level reads back {got}", what="value", op="setNumberDensity", level="component")
            self.probe("dummy_nuclide_present")
            self.sig.append(("component", "dump"))
            return True
        if st["op"] == "rmblock":
            # a block is taken out of the middle of an assembly (the stack is shorter from then on)
            asms = [a for a in self.core if len(a) >= 3]
            if not asms:
                return False
            a = sorted(asms, key=lambda x: tuple(int(v) for v in x.spatialLocator.getCompleteIndices()[:2]))[st["idx"] % len(asms)]
            a.getVolume()
            a.remove(list(a)[1 + st["idx"] % (len(a) - 2)])
            self.probe("block_taken_out_of_an_assembly")
            self.sig.append(("assembly", "rmblock"))
            return True
        if st["op"] == "takeout":
            # an assembly leaves the core (its blocks are whole blocks from then on)
            if len(self.core) < 2 or self.edges_present:
                return False
            asms = sorted(self.core, key=lambda a: tuple(int(x) for x in a.spatialLocator.getCompleteIndices()[:2]))
            a = asms[st["idx"] % len(asms)]
            a.getVolume(), a.getMass()
            self.core.removeAssembly(a, discharge=False)
            self.outside.append(a)
            self.probe("assembly_taken_out_of_the_core")
            self.sig.append(("core", "takeout"))
            return True
        if st["op"] == "coldarea":
            blks = c06.objects_at_level(self.r, "block")
            b = blks[st["idx"] % len(blks)]
            for bb in b.parent:
                bb.clearCache()  # (what any temperature or dimension change does)
                bb.getArea(cold=True)
            self.probe("cold_area_queries")
            self.sig.append(("block", "coldarea"))
            return True
        obj = self.target(st)
        nucs = sorted(n for n, v in obj.getNumberDensities().items())
        if not nucs:
            return False
        nuc = nucs[st["nuc"] % len(nucs)]
        nuc2 = nucs[st["nuc2"] % len(nucs)]
        if st["op"] in ("setNumberDensity", "updateNumberDensities") and st["level"] == "component" and "U235" in nucs and st["nuc"] % 5 == 2:
            # an isotope that builds up under irradiation (not one of the element's natural ones)
            nuc = "U236"
            if nuc not in nucs:
                nucs = sorted(nucs + [nuc])
            self.probe("non_natural_isotope_added")
        before = {n: float(v) for n, v in zip(nucs, obj.getNuclideNumberDensities(nucs))}
        mass_before = {n: float(obj.getMass(n)) for n in nucs}
        op = st["op"]
        lvl = st["level"]

        def others_unchanged(changed, what):
            after = {n: float(v) for n, v in zip(nucs, obj.getNuclideNumberDensities(nucs))}
            for n in nucs:
                if n not in changed and not rel(after[n], before[n]):
                    self.fail("C02.readback", f"step {k}: {op} of {sorted(changed)} at {lvl} level changed {n}: {before[n]} -> {after[n]}", what="others", op=op, level=lvl)
                    return

        if op == "setNumberDensity":
            v = before[nuc] * st["f"] if before[nuc] else 1e-4
            obj.setNumberDensity(nuc, v)
            got = float(obj.getNumberDensity(nuc))
            if not rel(got, v):
                self.fail("C02.readback", f"step {k}: setNumberDensity({nuc}, {v}) at {lvl} level reads back {got}", what="value", op=op, level=lvl)
            others_unchanged({nuc}, op)
        elif op == "updateNumberDensities":
            new = {nuc: before[nuc] * st["f"] if before[nuc] else 2e-4, nuc2: before[nuc2] * 0.5 if before[nuc2] else 3e-4}
            arg = dict(new)
            obj.updateNumberDensities(arg)
            self.caller_dict_is_not_the_model(k, obj, arg, op, lvl)
            for n, v in new.items():
                got = float(obj.getNumberDensity(n))
                if not rel(got, v):
                    self.fail("C02.readback", f"step {k}: updateNumberDensities({n}: {v}) at {lvl} level reads back {got}", what="value", op=op, level=lvl)
            others_unchanged(set(new), op)
        elif op == "setNumberDensities":
            new = {nuc: before[nuc] * st["f"] if before[nuc] else 2e-4, nuc2: before[nuc2] * 1.5 if before[nuc2] else 3e-4}
            arg = dict(new)
            obj.setNumberDensities(arg)
            self.caller_dict_is_not_the_model(k, obj, arg, op, lvl)
            after = {n: float(v) for n, v in zip(nucs, obj.getNuclideNumberDensities(nucs))}
            for n in nucs:
                want = new.get(n, 0.0)
                if not rel(after[n], want):
                    self.fail("C02.readback", f"step {k}: setNumberDensities at {lvl} level: {n} reads back {after[n]}, expected {want}", what="value", op=op, level=lvl)
                    break
        elif op == "changeNDensByFactor":
            f = st["f"] or 0.5
            obj.changeNDensByFactor(f)
            after = {n: float(v) for n, v in zip(nucs, obj.getNuclideNumberDensities(nucs))}
            for n in nucs:
                if not rel(after[n], before[n] * f):
                    self.fail("C02.readback", f"step {k}: changeNDensByFactor({f}) at {lvl} level: {n} {before[n]} -> {after[n]}", what="scale", op=op, level=lvl)
                    break
        elif op == "setMassFrac":
            if not any(v > 0 for v in before.values()):
                return False  # nothing to apportion (the API refuses a zero density by contract)
            rho0 = float(obj.density())
            if not rho0 or len([n for n in nucs if before[n] > 0]) < 2:
                return False
            mf0 = {n: float(v) for n, v in obj.getMassFracs().items()}
            fr = st["frac"]
            obj.setMassFrac(nuc, fr)
            mf1 = {n: float(v) for n, v in obj.getMassFracs().items()}
            if not rel(mf1.get(nuc, 0.0), fr, 1e-8):
                self.fail("C02.readback", f"step {k}: setMassFrac({nuc}, {fr}) at {lvl} level reads back {mf1.get(nuc, 0.0)}", what="massfrac", op=op, level=lvl)
            if not rel(float(obj.density()), rho0, 1e-8):
                self.fail("C02.readback", f"step {k}: setMassFrac at {lvl} level changed the total density {rho0} -> {float(obj.density())}", what="density", op=op, level=lvl)
            rest = [n for n in mf0 if n != nuc and mf0[n] > 0]
            if len(rest) >= 2:
                a, b = rest[0], rest[-1]
                if mf1.get(b) and not rel(mf1[a] / mf1[b], mf0[a] / mf0[b], 1e-8):
                    self.fail("C02.readback", f"step {k}: setMassFrac at {lvl} level changed the proportion {a}/{b}: {mf0[a] / mf0[b]} -> {mf1[a] / mf1[b]}", what="proportions", op=op, level=lvl)
        elif op == "adjustMassFrac":
            # one nuclide gets a new mass fraction while an element (given by name, held as isotopes) keeps its own
            if not any(v > 0 for v in before.values()):
                return False
            mf0 = {n: float(v) for n, v in obj.getMassFracs().items()}
            held = [n for n in mf0 if n.startswith("ZR") and mf0[n] > 0]
            if not held or nuc in held or mf0.get(nuc, 0.0) <= 0 or not float(obj.density()):
                return False
            rest = [n for n in mf0 if n != nuc and n not in held and mf0[n] > 0]
            fr = min(st["frac"], 0.9 * (1.0 - sum(mf0[n] for n in held)))
            if not rest:
                return False
            rho0 = float(obj.density())
            obj.adjustMassFrac(nuclideToAdjust=nuc, elementToHoldConstant="ZR", val=fr)
            mf1 = {n: float(v) for n, v in obj.getMassFracs().items()}
            if not rel(mf1.get(nuc, 0.0), fr, 1e-8):
                self.fail("C02.readback", f"step {k}: adjustMassFrac({nuc}, hold ZR, {fr}) at {lvl} level reads back {mf1.get(nuc, 0.0)}", what="massfrac", op=op, level=lvl)
            for n in held:
                if not rel(mf1.get(n, 0.0), mf0[n], 1e-8):
                    self.fail("C02.readback", f"step {k}: adjustMassFrac({nuc}, hold ZR) at {lvl} level changed the held {n}: {mf0[n]} -> {mf1.get(n, 0.0)}", what="held", op=op, level=lvl)
                    break
            if not rel(float(obj.density()), rho0, 1e-8):
                self.fail("C02.readback", f"step {k}: adjustMassFrac at {lvl} level changed the total density {rho0} -> {float(obj.density())}", what="density", op=op, level=lvl)
            if len(rest) >= 2 and mf1.get(rest[-1]):
                a_, b_ = rest[0], rest[-1]
                if not rel(mf1[a_] / mf1[b_], mf0[a_] / mf0[b_], 1e-8):
                    self.fail("C02.readback", f"step {k}: adjustMassFrac at {lvl} level changed the proportion {a_}/{b_}", what="proportions", op=op, level=lvl)
        elif op in ("addMass", "setMass", "removeMass"):
            m = st["mass"]
            if op == "removeMass":
                m = min(m, 0.5 * mass_before[nuc])
                if m <= 0:
                    return False
                obj.removeMass(nuc, m)
                want = mass_before[nuc] - m
            elif op == "addMass":
                obj.addMass(nuc, m)
                want = mass_before[nuc] + m
            else:
                obj.setMass(nuc, m)
                want = m
            got = float(obj.getMass(nuc))
            if not rel(got, want, 1e-8):
                sf = float(obj.parent.getSymmetryFactor()) if lvl == "component" and obj.parent is not None else 1.0
                self.fail("C02.readback", f"step {k}: {op}({nuc}, {m}) at {lvl} level: mass reads back {got}, expected {want}" + (f" (component of a block cut by symmetry lines, factor {sf})" if sf != 1.0 else ""), what="mass", level=lvl, cutBySymmetry=sf != 1.0)
            others_unchanged({nuc}, op)
        else:
            raise RuntimeError(op)
        self.sig.append((lvl, op))
        self.check_conversions(k, obj)
        return True


def execute(plan):
    cfg = copy.deepcopy(plan["config"])
    bp = cfg["blueprint"]
    log, scratch, clock, simos, d = enginea.new_run(plan)
    try:
        if bp.get("third") and bp.get("geom") != "cartesian":
            holes = {tuple(h) for h in bp.get("holes", [])}
            cells = [c for c in c14._first_third_cells(int(bp["rings"])) if tuple(c) not in holes]
            bp["cells"] = [[i, j, "IC" if inputs.hex_ring(i, j) == 1 else "OC"] for (i, j) in cells]
        cs, o, _ = enginea.build_life(cfg, scratch, 0, d)
        run = Runner(plan, o, log)
        run.check_levels(-1, {"op": "init"})
        if any(float(b.getSymmetryFactor()) != 1.0 for b in o.r.core.iterBlocks()):
            run.probe("cut_blocks_present")
        run.probe("core_" + str(bp.get("geom")) + "_" + str(bp.get("symmetry")).replace(" ", "_") + ("_even" if bp.get("even") else ""))
        for k, st in enumerate(plan["steps"]):
            try:
                did = run.apply(k, st)
            except ValueError as e:
                if "does not exist in any children" in str(e) or "mass density is zero" in str(e):
                    did = False  # refusal by contract
                    run.probe("refused_by_contract")
                else:
                    raise
            log.add("step", k, st["op"], st["level"], bool(did))
            if did:
                run.applied += 1
                run.probe("op_" + st["op"])
                run.probe("level_" + st["level"])
                run.check_levels(k, st)
        return kernel.result(
            kernel.PASS,
            digest=log.digest(),
            nevents=len(log),
            stats={"edits_applied": run.applied},
            probes=run.probes,
            known=run.known,
            sim={"steps": len(plan["steps"])},
            sig=kernel.digest([run.sig, bp.get("symmetry")])[:16],
            nontrivial=run.applied > 0,
        )
    finally:
        enginea.cleanup(scratch)
