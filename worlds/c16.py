"""C16 — retained state is restored exactly; parameter copies are equal and independent.

World B.  The history is a sequence of parameter/composition/temperature/grid edits, retain-state
scopes opened on arbitrary objects with arbitrary keep-sets and nesting, scopes left normally or
*cancelled by an exception at a plan-chosen step inside them* (the fault), cache computations,
deep copies and pickle round trips, and finally the read-only switch.  The model is a stack of
(object, keep-set, snapshot of the subtree's observable state).
"""
import copy
import pickle

from sim import driver, kernel
from sim.kernel import OracleFailure
from worlds import c06, enginea

PROPERTY = "C16"
WORLD = "B"
RULE = (
    "one run = generated hex core + a history of 8-60 steps (assign a parameter of any kind on any object, "
    "setNumberDensity, setTemperature, hex pitch change, block height change, enter retainState(keep) on any "
    "object, leave the innermost scope normally or by an exception, compute cached volume/area/mass, "
    "deepcopy / pickle a subtree and edit one side, read-only switch followed by assignments); distinct = "
    "hash of the step-kind sequence with nesting depths; non-trivial = at least one scope was entered and "
    "left after an edit inside it, or a copy/pickle/read-only step ran"
)
REAL = [
    "Composite.retainState / StateRetainer / Composite.backUp,restoreBackup / Component.backUp,restoreBackup",
    "ParameterCollection.backUp/restoreBackup/__deepcopy__/__reduce__/__setattr__, Parameter.backUp/restoreBackup",
    "StructuredGrid.backUp/restoreBackup, HexGrid.changePitch, Material.backUp/restoreBackup",
    "makeParametersReadOnly",
    "blueprints -> reactor (generated hex cores)",
]
STUB = ["no operator run, no clock, no I/O in this world"]
ASSUMPTIONS = [
    "observable state of a subtree = every parameter value, number densities, current temperatures, grid constructor arguments, block heights",
    "pickle round trips are for transport: equality and independence are checked, serial-number freshness only for deep copies",
    "read-only is checked for parameter assignments (p.x = v, p[x] = v), as the statement says",
]
TIERS = {"quick": (160, 80, 120), "thorough": (10000, 600, 180)}

KEEP_CANDIDATES = ["power", "flux", "vP0", "vP1", "vF0", "temperatureInC", "numberDensities", "height", "keff", "vSent", "mgFlux", "vP2", "id", "mult", "xsType", "envGroupNum"]
SET_PARAMS = ["vP0", "vP1", "vP2", "vF0", "vI0", "vS0", "vSent", "vN0"]  # (vN0 has no default: unset until assigned)


def gen_plan(rng, index, tier):
    bp = {"rings": rng.choice([1, 2, 2]), "symmetry": "full", "nfuel": rng.choice([1, 2]), "plate": rng.random() < 0.3, "sfp": rng.random() < 0.7, "geom": "hex"}
    if rng.random() < 0.25:
        bp.update({"geom": "cartesian", "symmetry": rng.choice(["full", "quarter reflective through center assembly"])})
        if bp["symmetry"] == "full" and rng.random() < 0.4:
            bp["even"] = True  # a grid whose origin is a cell corner (non-zero offset)
    cfg = {"reactor": "gen", "blueprint": bp, "settings": {"nCycles": 1, "burnSteps": 1}, "actors": []}
    steps = []
    depth = 0
    n = rng.randint(8, 60)
    uid = 0
    readonly = rng.random() < 0.15
    for k in range(n):
        uid += 1
        r = rng.random()
        if r < 0.16 and depth < 4:
            steps.append({"op": "enter", "level": rng.choice(["reactor", "core", "assembly", "block", "component"]), "idx": rng.randrange(1000), "keep": sorted(rng.sample(KEEP_CANDIDATES, rng.choice([0, 0, 1, 2, 3]))), "coldcache": rng.random() < 0.5, "pendingHeat": rng.random() < 0.25, "keepLevel": rng.choice([None, None, "block", "assembly", "core", "component"]), "keepForm": rng.choice(["set", "set", "list", "iter"])})
            depth += 1
        elif r < 0.19 and depth < 3:
            # two nested scopes on one object that keep the same parameter; it is assigned in the
            # inner one only (value kinds: scalar, array, dict) and must survive both exits
            lvl, idx, prm = rng.choice(["core", "assembly", "block", "component"]), rng.randrange(1000), rng.choice(["vP0", "vP1", "vP2"])
            ent = {"op": "enter", "level": lvl, "idx": idx, "keep": sorted({prm} | set(rng.sample(KEEP_CANDIDATES, rng.choice([0, 1]))))}
            steps += [dict(ent), dict(ent), {"op": "setp", "level": lvl, "idx": idx, "param": prm, "vkind": rng.choice(["arr", "arr", "arrn", "float", "dict", "arrnudge", "arrtrace"]), "u": uid}, {"op": "exit"}, {"op": "exit"}]
        elif r >= 0.215 and r < 0.235 and depth < 3:
            # a kept array that moves by a hair inside the scope (or holds trace values): kept is kept
            lvl, idx, prm = rng.choice(["core", "assembly", "block", "component"]), rng.randrange(1000), rng.choice(["vP0", "vP1", "vP2"])
            first = rng.choice(["arr", "arrn", "arrtrace"])
            steps += [
                {"op": "setp", "level": lvl, "idx": idx, "param": prm, "vkind": first, "u": uid},
                {"op": "enter", "level": lvl, "idx": idx, "keep": sorted({prm} | set(rng.sample(KEEP_CANDIDATES, rng.choice([0, 1]))))},
                {"op": "setp", "level": lvl, "idx": idx, "param": prm, "vkind": "arrnudge" if first != "arrtrace" else "arrtrace", "u": uid + 1},
                {"op": "exit"},
            ]
        elif r < 0.215 and r >= 0.205:
            if rng.random() < 0.5:
                # a linked dimension gets a number of its own (the link is gone until the scope ends)
                steps.append({"op": "unlink", "idx": rng.randrange(1000), "factor": rng.choice([0.995, 1.0])})
            elif depth < 3 and rng.random() < 0.6:
                # the other way round, inside a scope that keeps that dimension: the duct's
                # multiplicity (a number at entry) becomes a link to the intercoolant's and stays one
                steps += [
                    {"op": "enter", "level": rng.choice(["core", "assembly", "block"]), "idx": rng.randrange(1000), "keep": sorted({"mult"} | set(rng.sample(KEEP_CANDIDATES, rng.choice([0, 1]))))},
                    {"op": "mklink", "idx": rng.randrange(1000)},
                    {"op": "exit"},
                ]
            else:
                steps.append({"op": "mklink", "idx": rng.randrange(1000)})
        elif r >= 0.195 and r < 0.205:
            # a scope on one component only: its temperature changes, the neighbours are looked at
            steps.append({"op": "compscope", "idx": rng.randrange(1000), "T": rng.choice([300.0, 450.0, 600.0]), "lookInside": rng.random() < 0.8})
        elif r < 0.195:
            # a dimension assigned directly (no setter, nothing invalidated) and the block's area looked at
            steps.append({"op": "dimcache", "idx": rng.randrange(1000), "factor": rng.choice([0.97, 0.99, 1.02])})
        elif r < 0.28 and depth > 0:
            steps.append({"op": rng.choice(["exit", "exit", "exit_exc"])})
            depth -= 1
        elif r < 0.55:
            steps.append({"op": "setp", "level": rng.choice(["reactor", "core", "assembly", "block", "component"]), "idx": rng.randrange(1000), "param": rng.choice(SET_PARAMS), "vkind": rng.choice(["float", "int", "arr", "dict", "none", "str", "list", "arrn", "arrnudge", "arrnudge", "arrtrace"]), "u": uid})
        elif r < 0.62:
            steps.append({"op": "std", "idx": rng.randrange(1000), "which": rng.choice(["power", "flux", "mgFlux", "keff", "xsType", "envGroup"]), "u": uid})
        elif r < 0.70:
            steps.append({"op": "ndens", "idx": rng.randrange(1000), "nuc": rng.choice(["U235", "U238", "ZR", "FE", "NA23"]), "factor": rng.choice([0.5, 1.5, 2.0])})
        elif r < 0.77:
            steps.append({"op": "temp", "idx": rng.randrange(1000), "T": rng.choice([350.0, 400.0, 450.0, 475.0])})
        elif r < 0.80:
            steps.append({"op": "pitch", "pitch": rng.choice([16.8, 17.0, 18.5, 20.0])})
        elif r < 0.83:
            steps.append({"op": "sfppitch", "xw": rng.choice([32.0, 40.0, 50.0]), "yw": rng.choice([32.0, 36.0, 50.0])})
        elif r < 0.88:
            steps.append({"op": "height", "idx": rng.randrange(1000), "factor": rng.choice([0.9, 1.1, 1.25])})
        elif r < 0.92:
            steps.append({"op": "cache", "idx": rng.randrange(1000)})
        elif r < 0.96:
            steps.append({"op": "copy", "level": rng.choice(["assembly", "block", "component"]), "idx": rng.randrange(1000), "u": uid, "paramcopy": rng.choice([None, None, "update", "copy"])})
        else:
            steps.append({"op": "pickle", "level": rng.choice(["assembly", "block"]), "idx": rng.randrange(1000), "u": uid})
    if readonly:
        for _ in range(depth):
            steps.append({"op": "exit"})
        steps.append({"op": "readonly"})
        for _ in range(rng.randint(2, 8)):
            uid += 1
            steps.append({"op": "setp", "level": rng.choice(["reactor", "core", "assembly", "block", "component"]), "idx": rng.randrange(1000), "param": rng.choice(SET_PARAMS), "vkind": rng.choice(["float", "int", "arr"]), "u": uid})
            if rng.random() < 0.5:
                # ... and the setters that change parameters on the caller's behalf
                steps.append(rng.choice([
                    {"op": "ndens", "idx": rng.randrange(1000), "nuc": rng.choice(["U235", "U238", "ZR", "FE", "NA23"]), "factor": rng.choice([0.5, 1.5, 2.0])},
                    {"op": "temp", "idx": rng.randrange(1000), "T": rng.choice([350.0, 400.0, 450.0, 475.0])},
                    {"op": "height", "idx": rng.randrange(1000), "factor": rng.choice([0.9, 1.1, 1.25])},
                    {"op": "rotate", "idx": rng.randrange(1000), "k": rng.choice([1, 2, 4])},
                ]))
    return {"config": cfg, "steps": steps}


def simplify(plan):
    bp = plan["config"]["blueprint"]
    for key, simple in (("plate", False), ("sfp", False), ("nfuel", 1), ("rings", 1)):
        if bp.get(key) != simple:
            p = copy.deepcopy(plan)
            p["config"]["blueprint"][key] = simple
            yield p
    for i, s in enumerate(plan["steps"]):
        if s["op"] == "enter" and s["keep"]:
            p = copy.deepcopy(plan)
            p["steps"][i]["keep"] = s["keep"][:-1]
            yield p
        if s["op"] == "exit_exc":
            p = copy.deepcopy(plan)
            p["steps"][i]["op"] = "exit"
            yield p
        if s["op"] in ("enter", "setp") and s.get("level") not in ("core",):
            p = copy.deepcopy(plan)
            p["steps"][i]["level"] = "core"
            yield p


# ---- observable state ---------------------------------------------------------------------------------
def _val(v):
    import numpy as np

    if isinstance(v, tuple) and len(v) == 2 and hasattr(v[0], "name") and isinstance(v[1], str):
        return ["link", v[0].name, v[1]]
    if isinstance(v, np.ndarray):
        return ["nd", list(v.shape), v.dtype.kind, kernel.canon(v.tolist())]
    if isinstance(v, dict):
        return {str(k): _val(x) for k, x in v.items()}
    if isinstance(v, (list, tuple)):
        return [_val(x) for x in v]
    return kernel.canon(v)


def obj_state(o, keys=False):
    from armi.reactor import parameters
    from armi.reactor.components import Component

    st = {}
    for pd in o.p.paramDefs:
        try:
            v = o.p[pd.name]
        except parameters.ParameterError:
            v = "<unset>"
        except Exception as e:  # noqa: BLE001
            v = f"<{type(e).__name__}>"
        st["p." + pd.name] = _val(v)
    # which parameters the object lists as assigned (what copies, summaries and the database go by)
    # (a mark kept per definition, i.e. per class: only compared around scopes)
    if keys:
        st["keys"] = sorted(str(k) for k in o.p.keys())
    if isinstance(o, Component):
        st["ndens"] = {k: float(v) for k, v in o.getNumberDensities().items()}
        st["T"] = float(o.temperatureInC)
    if o.spatialGrid is not None:
        red = o.spatialGrid.reduce()
        st["grid"] = [kernel.canon(red.unitSteps), kernel.canon(red.bounds), kernel.canon(red.offset)]
        try:
            # what a user asks the grid (a stated pitch must follow the unit steps)
            st["grid.pitch"] = kernel.canon(o.spatialGrid.pitch)
        except Exception as e:  # noqa: BLE001 - a grid without a pitch (e.g. a zero-pitch Cartesian grid)
            st["grid.pitch"] = f"<{type(e).__name__}>"
    return st


def subtree(o):
    return [o] + list(o.iterChildren(deep=True))


def snapshot(o, keys=False):
    return {int(x.p.serialNum): obj_state(x, keys) for x in subtree(o)}


def diff_states(want, got):
    for sn in want:
        if sn not in got:
            yield (sn, "<object>", "present", "absent")
            continue
        a, b = want[sn], got[sn]
        for k in a:
            if a[k] != b.get(k):
                yield (sn, k, a[k], b.get(k))
    for sn in got:
        if sn not in want:
            yield (sn, "<object>", "absent", "present")


def all_live(r):
    return [r] + list(r.iterChildren(deep=True))


class Interrupt(Exception):
    pass


class Runner:
    def __init__(self, plan, o, log):
        self.plan = plan
        self.o = o
        self.r = o.r
        self.log = log
        self.steps = plan["steps"]
        self.findings = driver.load_findings()
        self.known = {}
        self.probes = {}
        self.readonly = False
        self.extra_live = []  # deep copies kept alive
        self.edits = 0
        self.scopes_checked = 0
        self.sig = []

    def probe(self, k, n=1):
        self.probes[k] = self.probes.get(k, 0) + n

    def fail(self, oracle, msg, **det):
        f = driver.match_finding(self.findings, PROPERTY, {"oracle": oracle, "detail": det})
        if f is not None:
            self.known[f["id"]] = self.known.get(f["id"], 0) + 1
            return
        raise OracleFailure(oracle, msg, det)

    def pick(self, level, idx):
        objs = c06.objects_at_level(self.r, level)
        return objs[idx % len(objs)] if objs else self.r.core

    # ---- one step (not scope control)
    def value(self, kind, u):
        import numpy as np

        if kind == "float":
            return 100.0 + u
        if kind == "int":
            return 3 * u
        if kind == "arr":
            return np.array([float(u), 1.0, 2.0])
        if kind == "dict":
            return {"A": float(u), "B": 2.0}
        if kind == "str":
            return f"s{u}"
        if kind == "list":
            return [[float(u), 1.0], [2.0, 3.0]]
        if kind == "arrn":
            return np.arange(2 + u % 3, dtype=float) + u
        return None

    def readonly_attempt(self, st):
        """Setter calls on a read-only model: refused, and nothing changes."""
        r = self.r
        op = st["op"]
        comps = c06.objects_at_level(r, "component")
        blks = c06.objects_at_level(r, "block")
        if op == "ndens":
            c = comps[st["idx"] % len(comps)]
            nd = c.getNumberDensities()
            if not nd:
                return
            nuc = st["nuc"] if st["nuc"] in nd else sorted(nd)[st["idx"] % len(nd)]
            target, call = c, (lambda: c.setNumberDensity(nuc, nd[nuc] * st["factor"] + 1e-5))
        elif op == "temp":
            c = comps[st["idx"] % len(comps)]
            target, call = c, (lambda: c.setTemperature(st["T"] + 7.0))
        elif op == "rotate":
            import math

            from armi.reactor.blocks import HexBlock

            hb = [b for b in blks if isinstance(b, HexBlock)]
            if not hb:
                return
            b = hb[st["idx"] % len(hb)]
            target, call = b, (lambda: b.rotate(math.radians(60.0 * st["k"])))
        elif op == "adjust":
            # a block-level composition change (what a fuel-management or depletion step does)
            from armi.reactor.flags import Flags

            fb = [b for b in blks if b.hasFlags(Flags.FUEL)]
            if not fb:
                return
            b = fb[st["idx"] % len(fb)]
            target, call = b, (lambda: b.adjustDensity(st["factor"], ["U235", "U238"]))
        else:
            b = blks[st["idx"] % len(blks)]
            target, call = b, (lambda: b.setHeight(b.getHeight() * st["factor"]))
        before = snapshot(target.parent if target.parent is not None else target)
        refused = False
        try:
            call()
        except Exception:  # noqa: BLE001 - the refusal
            refused = True
        after = snapshot(target.parent if target.parent is not None else target)
        self.probe("readonly_setter_calls")
        if not refused or before != after:
            diff = next(iter(diff_states(before, after)), None)
            self.fail("C16.readonly", f"{op} on a read-only {type(target).__name__} was {'refused' if refused else 'accepted'}; state changed: {before != after} ({diff})", refused=refused, changed=before != after, op=op)

    def do(self, st, depth):
        op = st["op"]
        r = self.r
        if self.readonly and op in ("ndens", "temp", "height", "rotate"):
            if op == "ndens" and st["idx"] % 3 == 0:
                st = dict(st, op="adjust")
            self.readonly_attempt(st)
            return
        if op == "setp":
            o = self.pick(st["level"], st["idx"])
            v = self.value(st["vkind"], st["u"])
            if st["vkind"] == "arrnudge":
                # an array that moves by a hair (a converging iteration, a scaling and its inverse)
                import numpy as np

                try:
                    cur = o.p[st["param"]]
                except Exception:  # noqa: BLE001
                    cur = None
                v = cur * (1.0 + 3.0e-7) if isinstance(cur, np.ndarray) and cur.dtype.kind == "f" and cur.size and np.all(np.isfinite(cur)) else np.array([1.0, 2.0, 3.0])
            elif st["vkind"] == "arrtrace":
                import numpy as np

                v = np.array([1.0e-10 * (1 + st["u"] % 7), 2.0e-11, 0.0])
            if self.readonly:
                before = obj_state(o)
                refused = False
                try:
                    if st["u"] % 2:
                        o.p[st["param"]] = v
                    else:
                        setattr(o.p, st["param"], v)
                except Exception:  # noqa: BLE001 - the refusal
                    refused = True
                after = obj_state(o)
                self.probe("readonly_assignments")
                if not refused or before != after:
                    self.fail("C16.readonly", f"assignment of {st['param']} on a read-only {type(o).__name__} was {'accepted' if not refused else 'refused'}; value changed: {before != after}", refused=refused, changed=before != after)
                return
            o.p[st["param"]] = v
            self.edits += 1
        elif op == "std":
            import numpy as np

            blks = c06.objects_at_level(r, "block")
            b = blks[st["idx"] % len(blks)]
            if self.readonly:
                return
            if st["which"] == "power":
                b.p.power = 10.0 * st["u"]
            elif st["which"] == "flux":
                b.p.flux = 1e9 + st["u"]
            elif st["which"] == "mgFlux":
                b.p.mgFlux = np.array([1.0 * st["u"], 2.0])
            elif st["which"] == "xsType":
                # one of a pair of parameters whose setters write each other (letter and number)
                b.p.xsType = "ABCDEFGH"[st["u"] % 8]
            elif st["which"] == "envGroup":
                b.p.envGroup = "ABCDEFGH"[(st["u"] // 2) % 8]
            else:
                r.core.p.keff = 1.0 + 1e-4 * st["u"]
            self.edits += 1
        elif op == "ndens" and not self.readonly:
            comps = c06.objects_at_level(r, "component")
            c = comps[st["idx"] % len(comps)]
            nd = c.getNumberDensities()
            if nd:
                nuc = st["nuc"] if st["nuc"] in nd else sorted(nd)[st["idx"] % len(nd)]
                c.setNumberDensity(nuc, nd[nuc] * st["factor"])
                self.edits += 1
        elif op == "temp" and not self.readonly:
            comps = c06.objects_at_level(r, "component")
            comps[st["idx"] % len(comps)].setTemperature(st["T"])
            self.edits += 1
        elif op == "pitch" and not self.readonly:
            if str(r.core.geomType).startswith("hex"):
                r.core.spatialGrid.changePitch(st["pitch"])
            else:
                r.core.spatialGrid.changePitch(st["pitch"], st["pitch"] + 1.5)
            self.edits += 1
            self.probe("pitch_change_depth_%d" % min(depth, 3))
            if st.get("ask", True):
                # the changed pitch is used inside the scope (pin pitch, assembly pitch)
                r.core.spatialGrid.pitch
                r.core.getAssemblyPitch()
        elif op == "sfppitch" and not self.readonly:
            sfp = r.excore.get("sfp")
            if sfp is not None and sfp.spatialGrid is not None:
                # a Cartesian grid with an origin offset (the pool)
                sfp.spatialGrid.changePitch(st["xw"], st["yw"])
                self.edits += 1
                self.probe("cartesian_offset_grid_pitch_change")
        elif op == "height" and not self.readonly:
            blks = c06.objects_at_level(r, "block")
            b = blks[st["idx"] % len(blks)]
            b.setHeight(b.getHeight() * st["factor"])
            self.edits += 1
        elif op == "unlink" and not self.readonly:
            cands = []
            for c in c06.objects_at_level(r, "component"):
                for dn in c.DIMENSION_NAMES:
                    v = c.p[dn]
                    if isinstance(v, tuple) and len(v) == 2 and dn in ("id", "ip"):
                        cands.append((c, dn))
            if cands:
                c, dn = cands[st["idx"] % len(cands)]
                c.setDimension(dn, float(c.getDimension(dn, cold=True)) * st["factor"], cold=True)
                self.edits += 1
                self.probe("linked_dimension_given_a_number")
        elif op == "mklink" and not self.readonly:
            from armi.reactor.blocks import Block

            cands = []
            for b in c06.objects_at_level(r, "block"):
                # (the duct has no linked dimension of its own; the intercoolant's multiplicity is a number too)
                cl, fu = b.getComponentByName("duct"), b.getComponentByName("intercoolant")
                if cl is not None and fu is not None and not isinstance(cl.p.mult, tuple) and not isinstance(fu.p.mult, tuple) and cl.p.mult == fu.p.mult:
                    cands.append((cl, fu))
            if cands:
                cl, fu = cands[st["idx"] % len(cands)]
                cl.setLink("mult", fu, "mult")
                self.edits += 1
                self.probe("number_dimension_turned_into_a_link")
            _ = Block
        elif op == "dimcache" and not self.readonly:
            from armi.reactor.components import basicShapes

            # (the fuel slug: room to the clad on the outside, nothing inside - the geometry stays valid)
            comps = [c for c in c06.objects_at_level(r, "component") if type(c) is basicShapes.Circle and c.name == "fuel" and isinstance(c.p.od, float) and c.parent is not None]
            comps = [c for c in comps if 0.5 < c.p.od * st["factor"] < 0.95]
            if comps:
                c = comps[st["idx"] % len(comps)]
                c.p.od = c.p.od * st["factor"]
                c.parent.getArea()
                self.edits += 1
                self.probe("direct_dimension_assignments")
        elif op == "compscope" and not self.readonly:
            from armi.reactor.blocks import Block

            comps = [c for c in c06.objects_at_level(r, "component") if isinstance(c.parent, Block) and c.containsSolidMaterial()]
            if comps:
                c = comps[st["idx"] % len(comps)]
                b = c.parent
                b.clearCache()
                before = [float(x.getVolume()) for x in b]
                with c.retainState():
                    c.setTemperature(st["T"])
                    if st.get("lookInside", True):
                        [x.getVolume() for x in b]
                after = [float(x.getVolume()) for x in b]
                self.probe("scope_on_one_component_neighbours_looked_at")
                if any(abs(x - y) > 1e-9 * max(1.0, abs(x)) for x, y in zip(before, after)):
                    bad = [(x.name, u, v) for x, u, v in zip(b, before, after) if abs(u - v) > 1e-9 * max(1.0, abs(u))]
                    self.fail(
                        "C16.cache",
                        f"scope on the component {c.name} of {b.getName()} (temperature changed and undone inside): the volumes of its neighbours computed inside the scope leaked out: {bad[:3]} (name, before, after)",
                        what="neighbour-volume",
                    )
        elif op == "cache":
            comps = c06.objects_at_level(r, "component")
            c = comps[st["idx"] % len(comps)]
            c.getVolume(), c.getArea(), c.getMass()
            c.parent.getVolume(), c.parent.getMass()
        elif op == "copy" and not self.readonly:
            self.do_copy(st)
        elif op == "pickle" and not self.readonly:
            self.do_pickle(st)
        elif op == "readonly":
            from armi.reactor.reactorParameters import makeParametersReadOnly

            if st.get("detailed", True):
                # blocks carry a detailed composition vector (set by depletion) when the model is frozen
                import numpy as np

                for j, b in enumerate(c06.objects_at_level(r, "block")):
                    b.p.detailedNDens = np.array([1e-3, 1e-4 * (j + 1)])
            makeParametersReadOnly(r)
            self.readonly = True
            self.probe("readonly_switch")

    def do_copy(self, st):
        o = self.pick(st["level"], st["idx"])
        live_before = {int(x.p.serialNum) for x in all_live(self.r)} | {int(x.p.serialNum) for cp in self.extra_live for x in subtree(cp)}
        # an entry the history tracker keeps on the collection (parameter name, time step)
        hist_key, hist_val = ("vP0", 2 + st["u"] % 3), 0.5 + st["u"]
        try:
            o.p[hist_key] = hist_val
        except Exception:  # noqa: BLE001
            hist_key = None
        before = snapshot(o)
        cp = copy.deepcopy(o)
        self.probe("deepcopies")
        if hist_key is not None:
            try:
                got_h = cp.p[hist_key]
            except Exception as e:  # noqa: BLE001
                got_h = f"<{type(e).__name__}>"
            if got_h != hist_val:
                self.fail("C16.copy", f"deep copy of {type(o).__name__}: the entry p[{hist_key}] = {hist_val} of the original reads {got_h} in the copy", what="history-entry")
        orig_objs = subtree(o)
        copy_objs = subtree(cp)
        if len(orig_objs) != len(copy_objs):
            self.fail("C16.copy", f"deep copy of {type(o).__name__} has {len(copy_objs)} objects, original {len(orig_objs)}", what="shape")
            return
        ids_o = {id(x) for x in orig_objs}
        if any(id(x) in ids_o for x in copy_objs):
            self.fail("C16.copy", "deep copy shares an object with the original", what="shared")
        new_serials = [int(x.p.serialNum) for x in copy_objs]
        if len(set(new_serials)) != len(new_serials) or set(new_serials) & live_before:
            self.fail("C16.copy", f"deep copy of {type(o).__name__} does not carry fresh serial numbers (reused: {sorted(set(new_serials) & live_before)[:5]})", what="serial")
        # equal values (position by position; serial numbers differ by design)
        for a, b in zip(orig_objs, copy_objs):
            sa, sb = obj_state(a), obj_state(b)
            sa.pop("p.serialNum", None)
            sb.pop("p.serialNum", None)
            if sa != sb:
                k = next(kk for kk in sa if sa[kk] != sb.get(kk))
                self.fail("C16.copy", f"deep copy differs from the original in {type(a).__name__}.{k}: {str(sa[k])[:120]} vs {str(sb.get(k))[:120]}", what="values", field=k)
                break
        # linked dimensions stay inside the family: a link of a component of the copy must point at a
        # sibling inside the copy (never at the original, a prototype or any third object)
        self.check_links(copy_objs, f"deep copy of {type(o).__name__}")
        if st.get("paramcopy"):
            # the copy then takes over the original's parameter values wholesale (both objects stay alive)
            if st["paramcopy"] == "update":
                cp.updateParamsFrom(o)
            else:
                cp.copyParamsFrom(o)
            self.probe("parameters_taken_over_from_another_object")
            sn = int(cp.p.serialNum)
            if sn == int(o.p.serialNum) or sn in live_before:
                self.fail("C16.serial", f"after {'updateParamsFrom' if st['paramcopy'] == 'update' else 'copyParamsFrom'} the {type(o).__name__} copy carries the serial number {sn} of a live object", what="paramcopy")
            # (that the values taken over are equal is not part of the statement, which speaks of deep copies
            # and pickles: copyParamsFrom skips parameters whose definition-level "assigned" mark was rolled
            # back by a scope elsewhere - see DESIGN 12)
        # independence: edit the copy, the original must not move; edit the original, the copy must not move
        tgt = copy_objs[st["u"] % len(copy_objs)]
        tgt.p.vP3 = 777.0 + st["u"]
        tgt.p.vSent = -5.0
        if snapshot(o) != before:
            self.fail("C16.copy", "an assignment to the deep copy shows in the original", what="dependent")
        cp_state = {id(x): obj_state(x) for x in copy_objs}
        src = orig_objs[st["u"] % len(orig_objs)]
        old = src.p.vP3
        src.p.vP3 = 555.0
        if {id(x): obj_state(x) for x in copy_objs} != cp_state:
            self.fail("C16.copy", "an assignment to the original shows in the deep copy", what="dependent-reverse")
        src.p.vP3 = old
        self.extra_live.append(cp)
        if len(self.extra_live) > 3:
            self.extra_live.pop(0)
        self.edits += 1

    def check_links(self, objs, label):
        ids = {id(x) for x in objs}
        for x in objs:
            if x.parent is None:
                continue
            for dn in getattr(x, "DIMENSION_NAMES", ()):
                raw = x.p[dn]
                if isinstance(raw, tuple) and len(raw) == 2 and hasattr(raw[0], "p"):
                    if id(raw[0]) not in ids or raw[0].parent is not x.parent:
                        self.fail("C16.copy", f"{label}: dimension {dn} of {x.name} is linked to a {raw[0].name} that is not its own sibling", what="link")
                        return

    def do_pickle(self, st):
        o = self.pick(st["level"], st["idx"])
        before = snapshot(o)
        parent = o.parent
        blob = pickle.dumps(o)
        if o.parent is not parent:
            self.fail("C16.pickle", "pickling detached the object from its parent", what="detached")
        cp = pickle.loads(blob)
        self.probe("pickles")
        a_objs, b_objs = subtree(o), subtree(cp)
        if len(a_objs) != len(b_objs):
            self.fail("C16.pickle", "unpickled subtree has a different number of objects", what="shape")
            return
        for a, b in zip(a_objs, b_objs):
            if obj_state(a) != obj_state(b):
                sa, sb = obj_state(a), obj_state(b)
                k = next(kk for kk in sa if sa[kk] != sb.get(kk))
                self.fail("C16.pickle", f"unpickled {type(a).__name__}.{k} differs: {str(sa[k])[:120]} vs {str(sb.get(k))[:120]}", what="values", field=k)
                break
        b_objs[st["u"] % len(b_objs)].p.vP3 = 888.0
        if snapshot(o) != before:
            self.fail("C16.pickle", "an assignment to the unpickled copy shows in the original", what="dependent")

    # ---- scope interpreter
    def run(self, i, depth):
        """Interpret steps from i at the given nesting depth; returns (next index, how the scope ended)."""
        n = len(self.steps)
        while i < n:
            st = self.steps[i]
            op = st["op"]
            self.log.add("step", i, op, depth)
            if op == "enter" and not self.readonly:
                i = self.scope(i, depth)
                continue
            if op in ("exit", "exit_exc"):
                if depth > 0:
                    return i + 1, op
                i += 1
                continue
            self.sig.append((op, depth))
            self.do(st, depth)
            i += 1
        return i, "end"

    def keepset(self, names, only_level=None):
        """The definitions to keep: every definition of those names, or (only_level) just the ones of
        the classes found at one level of the model - a definition is a per-class object, and keeping
        Block.power says nothing about Core.power."""
        from armi.reactor import parameters

        if only_level is None:
            return {pd for pd in parameters.ALL_DEFINITIONS if pd.name in names}
        out = set()
        for x in c06.objects_at_level(self.r, only_level):
            out |= {pd for pd in x.p.paramDefs if pd.name in names}
        return out

    def scope(self, i, depth):
        st = self.steps[i]
        o = self.pick(st["level"], st["idx"])
        keep = self.keepset(st["keep"], st.get("keepLevel"))
        names = set(st["keep"])
        keep_ids = {id(pd) for pd in keep}
        by_sn = {int(x.p.serialNum): x for x in subtree(o)}

        def kept(sn, name):
            x = by_sn.get(sn)
            return x is not None and any(id(pd) in keep_ids for pd in x.p.paramDefs if pd.name == name)

        want = snapshot(o)
        vols = None
        comps = [x for x in subtree(o) if hasattr(x, "getVolume") and type(x).__name__ not in ("Reactor",)][:6]
        try:
            # reference taken from fresh caches (a cache left stale by an *earlier* scope that kept a
            # parameter such as height is not this scope's doing)
            for x in comps:
                if hasattr(x, "clearCache"):
                    x.clearCache()
            vols = [float(x.getVolume()) for x in comps]
        except Exception:  # noqa: BLE001
            vols = None
        from armi.reactor.blocks import Block

        ablks = [x for x in subtree(o) if isinstance(x, Block)][:4]
        areas = None
        if not names:
            for b in ablks:
                b.clearCache()
            areas = [float(b.getArea()) for b in ablks]
            from armi.reactor.components import DerivedShape

            derived = [c for b in ablks for c in b if isinstance(c, DerivedShape)]
            dvols = [float(c.getVolume()) for c in derived]
            if st.get("coldcache"):
                # the scope opens on objects whose caches are empty (fresh from a load, or just cleared)
                for b in ablks:
                    b.clearCache()
                self.probe("scope_entered_with_empty_caches")
        pending = False
        if st.get("pendingHeat") and not names and ablks and not self.readonly:
            # something changed just before the scope opens and nobody has looked yet: a recomputation
            # of derived quantities is pending at entry (the reference values above no longer apply)
            from armi.reactor.flags import Flags

            for b in ablks:
                cl = b.getComponent(Flags.CLAD)
                if cl is not None:
                    cl.setTemperature(float(cl.temperatureInC) + 11.0)
                    pending = True
            if pending:
                areas = None
                vols = None
                self.probe("scope_entered_with_a_pending_recomputation")
        # the state at entry (reading parameters fills no cache)
        want = snapshot(o, keys=True)
        edits0 = self.edits
        self.sig.append(("enter", depth, type(o).__name__, len(names)))
        how = "end"
        nxt = i + 1
        inner = None
        try:
            form = st.get("keepForm", "set")
            if form == "list":
                keep_arg = sorted(keep, key=lambda pd: (pd.name, pd.collectionType.__name__))
            elif form == "iter":
                keep_arg = (pd for pd in sorted(keep, key=lambda pd: (pd.name, pd.collectionType.__name__)))  # any iterable
            else:
                keep_arg = keep
            with o.retainState(keep_arg):
                nxt, how = self.run(i + 1, depth + 1)
                inner = snapshot(o, keys=True)
                if how == "exit_exc":
                    raise Interrupt()
        except Interrupt:
            self.probe("scope_cancelled_depth_%d" % min(depth + 1, 3))
        got = snapshot(o, keys=True)
        # expectation: the saved state, except that kept parameters hold their inner values
        exp = want
        if names and inner is not None:
            exp = {}
            for sn, stt in want.items():
                e = dict(stt)
                for k in stt:
                    if sn not in inner:
                        continue
                    if k.startswith("p.") and k[2:] in names and kept(sn, k[2:]):
                        e[k] = inner[sn].get(k)
                    elif (k == "T" and "temperatureInC" in names and kept(sn, "temperatureInC")) or (k == "ndens" and "numberDensities" in names and kept(sn, "numberDensities")):
                        e[k] = inner[sn].get(k)
                exp[sn] = e
        # the listing of assigned parameters is kept per definition (per class) and follows rules of its
        # own; what the statement needs from it: a kept parameter that holds a new value is listed
        unlisted = None
        for sn, stt in got.items():
            for nm in names:
                if sn in want and kept(sn, nm) and stt.get("p." + nm) != want[sn].get("p." + nm) and stt.get("p." + nm) not in (None, "<unset>") and nm not in stt.get("keys", []):
                    unlisted = (sn, nm)
        for dct in (exp, got):
            for stt in dct.values():
                stt.pop("keys", None)
        diffs = list(diff_states(exp, got))
        self.scopes_checked += 1
        self.sig.append((how, depth))
        if self.edits > edits0:
            self.probe("scope_left_after_edits")
        if names:
            self.probe("scope_with_keep_set")
        if unlisted is not None and not diffs:
            self.fail("C16.restore", f"scope on {type(o).__name__} (keep={sorted(names)}, depth {depth + 1}, left by {how}): object serial {unlisted[0]} keeps its new value of {unlisted[1]}, but no longer lists that parameter among its assigned ones (keys / items / what is written to a database)", field="kept-unlisted", nested=depth > 0, how="exception" if how == "exit_exc" else "normal")
        for sn, field, a, b in diffs:
            kind = "grid" if field == "grid" else ("kept" if field[2:] in names else "param" if field.startswith("p.") else field)
            self.fail(
                "C16.restore",
                f"scope on {type(o).__name__} (keep={sorted(names)}, depth {depth + 1}, left by {how}): object serial {sn} field {field} is {str(b)[:160]} after the scope, expected {str(a)[:160]}",
                field=kind,
                nested=depth > 0,
                how="exception" if how == "exit_exc" else "normal",
            )
            break
        if pending and not diffs:
            # whatever was cached or recomputed inside, afterwards the cached values are the fresh ones
            for b in ablks:
                cached_v = [float(c.getVolume()) for c in b]
                b.clearCache()
                fresh_v = [float(c.getVolume()) for c in b]
                if any(abs(x - y) > 1e-9 * max(1.0, abs(y)) for x, y in zip(cached_v, fresh_v)):
                    self.fail("C16.cache", f"after the scope the components of {b.getName()} report the volumes {cached_v}; computed afresh they are {fresh_v} (a recomputation was pending when the scope opened and the volumes were looked at inside)", what="stale-after-scope")
                    break
        if areas is not None and not diffs:
            dafter = [float(c.getVolume()) for c in derived]
            if any(abs(a - b) > 1e-9 * max(1.0, abs(a)) for a, b in zip(dvols, dafter)):
                self.fail("C16.cache", f"the volume of a coolant that fills the rest of its block, computed inside the scope, leaked out of it: {dvols} before, {dafter} after (parameters are restored)", what="derived-volume")
            after = [float(b.getArea()) for b in ablks]
            if any(abs(a - b) > 1e-9 * max(1.0, abs(a)) for a, b in zip(areas, after)):
                self.fail("C16.cache", f"a block area cached inside the scope leaked out of it: {areas} before, {after} after (parameters are restored)", what="area")
        # (only for scopes that span the whole model: a derived volume of a narrower subtree may
        # legitimately follow an edit made outside the scope's subtree)
        if vols is not None and not diffs and not names and type(o).__name__ in ("Reactor", "Core"):
            try:
                after = [float(x.getVolume()) for x in comps]
            except Exception:  # noqa: BLE001
                after = None
            if after is not None and any(abs(a - b) > 1e-9 * max(1.0, abs(a)) for a, b in zip(vols, after)):
                self.fail("C16.cache", f"a cached volume computed inside the scope leaked out: {vols} -> {after}", what="volume")
        return nxt


def execute(plan):
    cfg = plan["config"]
    log, scratch, clock, simos, d = enginea.new_run(plan)
    try:
        cs, o, _ = enginea.build_life(cfg, scratch, 0, d)
        run = Runner(plan, o, log)
        serials = [int(x.p.serialNum) for x in all_live(o.r)]
        if len(set(serials)) != len(serials):
            raise OracleFailure("C16.serial", "two live objects share a serial number right after construction", {"what": "initial"})
        run.run(0, 0)
        serials = [int(x.p.serialNum) for x in all_live(o.r)] + [int(x.p.serialNum) for cp in run.extra_live for x in subtree(cp)]
        if len(set(serials)) != len(serials):
            run.fail("C16.serial", "two live objects share a serial number at the end of the history", what="final")
        return kernel.result(
            kernel.PASS,
            digest=log.digest(),
            nevents=len(log),
            stats={"edits": run.edits, "scopes_checked": run.scopes_checked},
            probes=run.probes,
            known=run.known,
            sim={"steps": len(plan["steps"])},
            sig=kernel.digest(run.sig)[:16],
            nontrivial=run.scopes_checked > 0 or any(k in run.probes for k in ("deepcopies", "pickles", "readonly_switch")),
        )
    finally:
        enginea.cleanup(scratch)
