"""C01 — the reactor model tree stays a well-formed tree under any edit history.

World B.  The history is a sequence of structural edits (add / insert / remove / removeAll /
setChildren / sort / reestablishBlockOrder, on generic composites, blocks of components and
assemblies of blocks), deep copies and pickle round trips.  The model is a map
handle -> (parent handle, ordered child handles).  After every step: tree shape against the model,
and every traversal query against a naive recursive walk of the child lists.
"""
import copy
import pickle

from sim import driver, kernel
from sim.kernel import OracleFailure
from worlds import enginea

PROPERTY = "C01"
WORLD = "B"
RULE = (
    "one run = a generated hex core plus a pool of detached generic composites, assemblies, blocks and "
    "components, and a history of 10-70 structural steps; after every step the whole universe is compared "
    "with the parent/child model and 3 seed-chosen objects are queried through every traversal API "
    "(getChildren/iterChildren with deep, generationNum 1-4, predicates, flags exact/inexact, type names, "
    "iterComponents, getAncestor*) against a naive walk; distinct = hash of the op-kind sequence and final "
    "model shape; non-trivial = at least one edit changed the model"
)
REAL = [
    "Composite.add/insert/remove/removeAll/setChildren/sort/__contains__/iterChildren/_iterChildren/getChildren/iterComponents/getAncestor*",
    "Block.add/remove/__deepcopy__, Assembly.add/insert/remove/reestablishBlockOrder",
    "ArmiObject.__getstate__/__setstate__, Grid.__getstate__/__setstate__ (pickle / deepcopy)",
    "blueprints -> reactor (generated hex cores)",
]
STUB = ["no operator run, no clock, no I/O in this world"]
ASSUMPTIONS = [
    "add/insert are only given detached objects that are not ancestors of the target (raw append/extend are never used)",
    "rejected operations (remove of a non-child, add of a present child) run in their own configuration",
]
TIERS = {"quick": (160, 80, 120), "thorough": (10000, 600, 180)}


def gen_plan(rng, index, tier):
    bp = {"rings": rng.choice([1, 2]), "symmetry": "full", "nfuel": rng.choice([1, 2, 3]), "plate": rng.random() < 0.4, "plenum": rng.random() < 0.4, "sfp": rng.random() < 0.5, "geom": "hex"}
    if rng.random() < 0.4:
        bp["pins"] = True  # blocks with a pin lattice: components carry multi-index / coordinate locators in the block's grid
        bp["pinrings"] = 2
        bp["pinhole"] = rng.random() < 0.5  # a lattice with an empty position
    if rng.random() < 0.25:
        # square assemblies on a Cartesian grid (Cartesian pin lattices when there are pins)
        bp.update({"geom": "cartesian", "symmetry": rng.choice(["full", "quarter reflective through center assembly"])})
    cfg = {"reactor": "gen", "blueprint": bp, "settings": {"nCycles": 1, "burnSteps": 1}, "actors": [], "ngeneric": rng.randint(4, 9), "rejected": rng.random() < 0.15}
    if rng.random() < 0.3:
        cfg["coreCopy"] = rng.choice(["deepcopy", "pickle", "pickle-reactor"])
    steps = []
    cfg["settings"]["trackAssems"] = rng.random() < 0.7  # (without a pool system in the blueprint: the default pool)
    kinds = ["c_remove", "g_add", "g_add", "g_insert", "g_remove", "g_removeAll", "g_setChildren", "a_remove", "a_add", "a_insert", "a_reorder", "a_sort", "a_removeAll", "a_setChildren", "b_remove", "b_add", "b_replace", "copy", "pickle", "detach_copy"]
    if cfg["rejected"]:
        kinds += ["x_remove_nonchild", "x_add_present", "x_core_add_same_name"]
    for _ in range(rng.randint(10, 70)):
        steps.append({"op": rng.choice(kinds), "a": rng.randrange(10**6), "b": rng.randrange(10**6), "c": rng.randrange(10**6)})
    return {"config": cfg, "steps": steps}


def simplify(plan):
    bp = plan["config"]["blueprint"]
    for key, simple in (("pins", False), ("plate", False), ("plenum", False), ("sfp", False), ("nfuel", 1), ("rings", 1)):
        if bp.get(key, simple) != simple:
            p = copy.deepcopy(plan)
            p["config"]["blueprint"][key] = simple
            yield p
    if plan["config"].get("ngeneric", 4) > 3:
        p = copy.deepcopy(plan)
        p["config"]["ngeneric"] -= 1
        yield p


class Universe:
    def __init__(self, plan, o, log):
        from armi.reactor import composites

        self.plan = plan
        self.r = o.r
        self.log = log
        self.objs = {}  # handle -> object
        self.h = {}  # id(obj) -> handle
        self.parent = {}  # handle -> parent handle or None
        self.kids = {}  # handle -> [handles]
        self.detached = set()  # handles that were taken out of the model by remove*
        self.next = 0
        self.findings = driver.load_findings()
        self.known = {}
        self.probes = {}
        self.changed = 0
        self.refused = 0
        self.origin = {}
        self.register_tree(self.r, None)
        self.generic = []
        for k in range(plan["config"].get("ngeneric", 5)):
            g = composites.Composite(f"G{k}")
            self.register_tree(g, None)
            self.generic.append(self.h[id(g)])

    # ---- model bookkeeping
    def register_tree(self, o, parent):
        hd = self.next
        self.next += 1
        self.objs[hd] = o
        self.h[id(o)] = hd
        self.parent[hd] = parent
        self.kids[hd] = []
        for c in o:
            self.kids[hd].append(self.register_tree(c, hd))
        return hd

    def probe(self, k):
        self.probes[k] = self.probes.get(k, 0) + 1

    def fail(self, oracle, msg, **det):
        f = driver.match_finding(self.findings, PROPERTY, {"oracle": oracle, "detail": det})
        if f is not None:
            self.known[f["id"]] = self.known.get(f["id"], 0) + 1
            return
        raise OracleFailure(oracle, msg, det)

    def roots(self):
        return [hd for hd, p in self.parent.items() if p is None]

    def is_ancestor(self, a, b):
        """a is b or an ancestor of b (model)."""
        while b is not None:
            if a == b:
                return True
            b = self.parent[b]
        return False

    def of_class(self, pred):
        return sorted(hd for hd, o in self.objs.items() if pred(o))

    # ---- naive walkers (the oracle): only list(obj) is used
    @staticmethod
    def walk_deep(o):
        out = list(o)
        for c in list(o):
            out.extend(Universe.walk_deep(c))
        return out

    @staticmethod
    def walk_gen(o, n):
        level = [o]
        for _ in range(n):
            nxt = []
            for x in level:
                nxt.extend(list(x))
            level = nxt
        return level

    @staticmethod
    def walk_components(o):
        from armi.reactor.components import Component

        out = []
        if isinstance(o, Component):
            return [o]
        for c in list(o):
            out.extend(Universe.walk_components(c))
        return out

    # ---- invariants
    def check_shape(self, k, st):
        seen_child = {}
        for hd, o in self.objs.items():
            got = [self.h.get(id(c)) for c in list(o)]
            if None in got:
                self.fail("C01.shape", f"after step {k} ({st['op']}): {o} lists a child that is not part of the model universe", what="unknown-child", op=st["op"])
                continue
            if got != self.kids[hd]:
                self.fail("C01.shape", f"after step {k} ({st['op']}): children of {o} are {got}, model says {self.kids[hd]}", what="children", op=st["op"])
            if len(set(got)) != len(got):
                self.fail("C01.shape", f"after step {k} ({st['op']}): {o} lists a child twice", what="duplicate-child", op=st["op"])
            for c in got:
                if c in seen_child and seen_child[c] != hd:
                    self.fail("C01.shape", f"after step {k} ({st['op']}): object {self.objs[c]} is listed by two parents", what="two-parents", op=st["op"])
                seen_child[c] = hd
            p = o.parent
            ph = None if p is None else self.h.get(id(p), "?")
            if ph != self.parent[hd]:
                self.fail("C01.shape", f"after step {k} ({st['op']}): parent of {o} is {p}, model says {self.objs.get(self.parent[hd])}", what="parent", op=st["op"])
            if p is not None and not any(c is o for c in list(p)):
                self.fail("C01.shape", f"after step {k} ({st['op']}): {o} names {p} as parent but is not among its children", what="orphan", op=st["op"])
        for hd in self.detached:
            o = self.objs[hd]
            if self.parent[hd] is None:
                loc = o.spatialLocator
                if o.parent is not None:
                    self.fail("C01.shape", f"after step {k}: removed object {o} still has a parent", what="removed-parent", op=st["op"])
                if loc is not None and getattr(loc, "grid", None) is not None:
                    self.fail("C01.shape", f"after step {k}: removed object {o} still has a location in a grid", what="removed-locator", op=st["op"])
                if loc is not None and hasattr(loc, "_locations") and any(sub.grid is not None for sub in loc):
                    self.fail("C01.shape", f"after step {k}: the multi-location of removed object {o} is detached, but its sub-locations still belong to a grid", what="removed-sublocator", op=st["op"])

    def check_queries(self, k, st):
        from armi.reactor.components import Component
        from armi.reactor.flags import Flags

        hs = sorted(self.objs)
        picks = [hs[(st["a"] + 7919 * j) % len(hs)] for j in range(3)] + [0]
        for hd in picks:
            o = self.objs[hd]

            def cmp(name, got, want):
                if [id(x) for x in got] != [id(x) for x in want]:
                    self.fail("C01.traversal", f"after step {k} ({st['op']}): {name} on {o} returned {[str(x) for x in got][:8]} (n={len(got)}), a naive walk gives {[str(x) for x in want][:8]} (n={len(want)})", query=name.split("(")[0], op=st["op"])

            cmp("getChildren()", o.getChildren(), list(o))
            # what a query returns is the caller's: reordering or emptying it is not an edit of the model
            mine = o.getChildren()
            listed = list(o)
            mine.reverse()
            mine.append(None)
            del mine[: len(mine) // 2]
            if [id(x) for x in list(o)] != [id(x) for x in listed]:
                self.fail("C01.traversal", f"after step {k} ({st['op']}): the list returned by getChildren() on {o} was reordered and cut by its caller, and the children of {o} changed with it", query="getChildren-aliased", op=st["op"])
            cmp("iterChildren()", list(o.iterChildren()), list(o))
            deep = self.walk_deep(o)
            cmp("getChildren(deep=True)", o.getChildren(deep=True), deep)
            cmp("iterChildren(deep=True)", list(o.iterChildren(deep=True)), deep)
            for g in (1, 2, 3, 4):
                cmp(f"getChildren(generationNum={g})", o.getChildren(generationNum=g), self.walk_gen(o, g))
            pred = lambda x: (len(x.name) + st["b"]) % 2 == 0  # noqa: E731
            cmp("getChildren(deep,predicate)", o.getChildren(deep=True, predicate=pred), [x for x in deep if pred(x)])
            cmp("iterChildren(generationNum=2,predicate)", list(o.iterChildren(generationNum=2, predicate=pred)), [x for x in self.walk_gen(o, 2) if pred(x)])
            # the variants that also hand out the materials: each object is followed by its material, if it has one
            def with_materials(objs):
                out = []
                for x in objs:
                    out.append(x)
                    if hasattr(x, "material"):
                        out.append(x.material)
                return out

            cmp("getChildren(deep,includeMaterials,predicate)", o.getChildren(deep=True, includeMaterials=True, predicate=pred), with_materials([x for x in deep if pred(x)]))
            cmp("iterChildrenWithMaterials(deep)", list(o.iterChildrenWithMaterials(deep=True)), with_materials(deep))
            cmp("iterChildrenWithMaterials(generationNum=2,predicate)", list(o.iterChildrenWithMaterials(generationNum=2, predicate=pred)), with_materials([x for x in self.walk_gen(o, 2) if pred(x)]))
            comps = self.walk_components(o)
            cmp("iterComponents()", list(o.iterComponents()), comps)
            cmp("getComponents()", list(o.getComponents()), comps)
            for flag, exact in ((Flags.FUEL, False), (Flags.CLAD, True), (Flags.COOLANT, False), (Flags.DUCT | Flags.COOLANT, False)):
                cmp(f"iterComponents({flag},exact={exact})", list(o.iterComponents(flag, exact)), [c for c in comps if c.hasFlags(flag, exact=exact)])
                cmp(f"getChildrenWithFlags({flag},{exact})", o.getChildrenWithFlags(flag, exactMatch=exact), [c for c in list(o) if c.hasFlags(flag, exact=exact)])
            for tn in ("fuel", "clad", "igniter fuel", "grid plate"):
                try:
                    want_t = [c for c in list(o) if c.getType() == tn]
                except AttributeError:
                    break  # children without a type name (systems under the reactor): query not applicable
                cmp(f"getChildrenOfType({tn})", o.getChildrenOfType(tn), want_t)
            cmp("getChildren(deep,Component)", o.getChildren(deep=True, predicate=lambda x: isinstance(x, Component)), [x for x in deep if isinstance(x, Component)])
            # ancestors
            chain = []
            x = o
            while x is not None:
                chain.append(x)
                x = x.parent
            for nm, fn in (("Assembly", lambda z: type(z).__name__ == "HexAssembly"), ("never", lambda z: False), ("self", lambda z: True), ("named-G", lambda z: z.name.startswith("G"))):
                want = next((z for z in chain if fn(z)), None)
                got = o.getAncestor(fn)
                if got is not want:
                    self.fail("C01.traversal", f"after step {k}: getAncestor({nm}) on {o} gave {got}, the parent chain gives {want}", query="getAncestor", op=st["op"])
                gd = o.getAncestorAndDistance(fn)
                wd = None if want is None else (want, next(i for i, z in enumerate(chain) if z is want))
                if (gd is None) != (wd is None) or (gd is not None and (gd[0] is not wd[0] or gd[1] != wd[1])):
                    self.fail("C01.traversal", f"after step {k}: getAncestorAndDistance({nm}) on {o} gave {gd}, the parent chain gives {wd}", query="getAncestorAndDistance", op=st["op"])
            want = next((z for z in chain if z.hasFlags(Flags.FUEL)), None)
            if o.getAncestorWithFlags(Flags.FUEL) is not want:
                self.fail("C01.traversal", f"after step {k}: getAncestorWithFlags(FUEL) on {o} disagrees with the parent chain", query="getAncestorWithFlags", op=st["op"])
            # exact and inexact matches against the flag sets that occur up the chain (a naive reading
            # of "has these flags": all of them, and - exact - no others)
            specs = []
            for z in chain[1:]:
                f = getattr(z.p, "flags", None)
                if f and f not in specs:
                    specs.append(f)
            specs.append(Flags.FUEL)
            for spec in specs[:4]:
                for exact in (False, True):
                    def has(z):
                        f = getattr(z.p, "flags", None)
                        if not f:
                            return False
                        return f == spec if exact else (f & spec) == spec
                    want = next((z for z in chain if has(z)), None)
                    got = o.getAncestorWithFlags(spec, exactMatch=exact)
                    if got is not want:
                        self.fail("C01.traversal", f"after step {k}: getAncestorWithFlags({spec}, exactMatch={exact}) on {o} gave {got}, the parent chain gives {want}", query="getAncestorWithFlags", op=st["op"])

    # ---- model edits
    def m_attach(self, p, c, idx=None):
        self.parent[c] = p
        if idx is None:
            self.kids[p].append(c)
        else:
            self.kids[p].insert(idx, c)
        self.detached.discard(c)

    def m_detach(self, p, c):
        self.kids[p].remove(c)
        self.parent[c] = None
        self.detached.add(c)

    def pick(self, lst, n):
        return lst[n % len(lst)] if lst else None

    def apply(self, k, st):
        from armi.reactor import assemblies, blocks
        from armi.reactor.components import Component

        op = st["op"]
        O = self.objs
        is_asm = lambda o: isinstance(o, assemblies.Assembly)  # noqa: E731
        is_blk = lambda o: isinstance(o, blocks.Block)  # noqa: E731
        is_cmp = lambda o: isinstance(o, Component)  # noqa: E731
        det = lambda pred: [hd for hd in self.of_class(pred) if self.parent[hd] is None]  # noqa: E731
        if op in ("g_add", "g_insert"):
            p = self.pick(self.generic, st["a"])
            cands = [hd for hd in self.roots() if hd != 0 and not self.is_ancestor(hd, p)]
            c = self.pick(cands, st["b"])
            if c is None:
                return False
            if op == "g_add":
                # "adding" has three spellings: add, append, extend([..])
                how = st["c"] % 5
                if how == 3:
                    O[p].append(O[c])
                    self.probe("children_appended")
                elif how == 4:
                    d = self.pick([hd for hd in cands if hd != c], st["c"] // 10)
                    if d is not None and (st["c"] // 5) % 2 == 0:
                        # a batch that names one object twice: the second mention is refused, and the
                        # parent lists every object of the batch once
                        try:
                            O[p].extend([O[c], O[d], O[c]])
                            refused = False
                        except Exception:  # noqa: BLE001 - the refusal (composing its message may itself fail on an assembly without a location)
                            refused = True
                        self.probe("batch_naming_an_object_twice")
                        if not refused:
                            self.fail("C01.rejected", f"step {k}: extend() of a batch naming {type(O[c]).__name__} twice was accepted", what="batch-duplicate")
                        self.m_attach(p, c)
                        self.m_attach(p, d)
                        return True
                    O[p].extend([O[c]])
                    self.probe("children_appended")
                else:
                    O[p].add(O[c])
                self.m_attach(p, c)
            else:
                idx = st["c"] % (len(self.kids[p]) + 1)
                O[p].insert(idx, O[c])
                self.m_attach(p, c, idx)
            return True
        if op == "g_remove":
            ps = [hd for hd in self.generic if self.kids[hd]]
            p = self.pick(ps, st["a"])
            if p is None:
                return False
            c = self.pick(self.kids[p], st["b"])
            O[p].remove(O[c])
            self.m_detach(p, c)
            return True
        if op == "g_removeAll":
            ps = [hd for hd in self.generic if self.kids[hd]]
            p = self.pick(ps, st["a"])
            if p is None:
                return False
            O[p].removeAll()
            for c in list(self.kids[p]):
                self.m_detach(p, c)
            return True
        if op == "g_setChildren":
            p = self.pick(self.generic, st["a"])
            cur = list(self.kids[p])
            extra = [hd for hd in self.roots() if hd != 0 and not self.is_ancestor(hd, p)]
            new = [c for i, c in enumerate(cur) if (st["b"] >> i) & 1]
            if extra and st["c"] % 2:
                new.append(extra[st["c"] % len(extra)])
            if st["b"] % 3 == 0:
                new.reverse()
            if new and not (extra and st["c"] % 2) and st["b"] % 3 != 0 and st["c"] % 4 == 2:
                # the new children given as a lazy iterator over the present ones
                wanted = set(new)
                O[p].setChildren(x for x in O[p] if self.h[id(x)] in wanted)
                self.probe("setChildren_from_iterator_over_own_children")
            else:
                O[p].setChildren([O[c] for c in new])
            for c in cur:
                self.m_detach(p, c)
            for c in new:
                self.m_attach(p, c)
            return True
        if op == "a_remove":
            asms = [hd for hd in self.of_class(is_asm) if len(self.kids[hd]) > 1]
            a = self.pick(asms, st["a"])
            if a is None:
                return False
            c = self.pick(self.kids[a], st["b"])
            O[a].remove(O[c])
            self.m_detach(a, c)
            return True
        if op in ("a_add", "a_insert"):
            asms = self.of_class(is_asm)
            a = self.pick(asms, st["a"])
            c = self.pick(det(is_blk), st["b"])
            if a is None or c is None:
                return False
            if op == "a_add":
                if st["c"] % 5 == 3:
                    O[a].append(O[c])
                    self.probe("children_appended")
                elif st["c"] % 5 == 4:
                    O[a].extend([O[c]])
                    self.probe("children_appended")
                else:
                    O[a].add(O[c])
                self.m_attach(a, c)
            else:
                idx = st["c"] % (len(self.kids[a]) + 1)
                O[a].insert(idx, O[c])
                self.m_attach(a, c, idx)
            return True
        if op == "a_removeAll":
            # on a detached copy of an assembly (the core's own assemblies keep their blocks)
            asms = [hd for hd in self.of_class(is_asm) if self.parent[hd] is None and self.kids[hd]]
            a = self.pick(asms, st["a"])
            if a is None:
                return False
            O[a].removeAll()
            for c in list(self.kids[a]):
                self.m_detach(a, c)
            return True
        if op == "a_setChildren":
            asms = [hd for hd in self.of_class(is_asm) if self.parent[hd] is None and len(self.kids[hd]) > 1]
            a = self.pick(asms, st["a"])
            if a is None:
                return False
            cur = list(self.kids[a])
            new = [c for i, c in enumerate(cur) if (st["b"] >> i) & 1] or cur[:1]
            if st["c"] % 2:
                new.reverse()
            O[a].setChildren([O[c] for c in new])
            for c in cur:
                self.m_detach(a, c)
            for c in new:
                self.m_attach(a, c)
            return True
        if op == "a_reorder":
            a = self.pick(self.of_class(is_asm), st["a"])
            if a is None:
                return False
            O[a].reestablishBlockOrder()
            O[a].calculateZCoords()
            return True
        if op == "a_sort":
            a = self.pick([hd for hd in self.of_class(is_asm) if self.kids[hd]], st["a"])
            if a is None:
                return False
            # children sorted by their axial locator; the model sorts by the same public key
            O[a].reestablishBlockOrder()
            O[a].sort()
            self.kids[a] = sorted(self.kids[a], key=lambda hd: int(O[hd].spatialLocator.k))
            for b in self.kids[a]:
                self.kids[b] = [self.h[id(x)] for x in sorted(O[b])]
            return True
        if op == "b_remove":
            from armi.reactor.components import DerivedShape

            bs = [hd for hd in self.of_class(is_blk) if len(self.kids[hd]) > 3]
            b = self.pick(bs, st["a"])
            if b is None:
                return False
            # components that nothing else in the block is linked to and that do not define the pitch
            blk = O[b]
            cands = []
            try:
                pitch_comp = blk.getPitch(returnComp=True)[1]
            except ValueError:
                pitch_comp = None
            for c in self.kids[b]:
                co = O[c]
                if isinstance(co, DerivedShape):
                    continue
                if co is blk.getLargestComponent("op") or co is pitch_comp:
                    continue
                linked = any(isinstance(x.p[d], tuple) and x.p[d][0] is co for x in blk if x is not co for d in x.DIMENSION_NAMES)
                if not linked:
                    cands.append(c)
            c = self.pick(cands, st["b"])
            if c is None:
                return False
            blk.remove(O[c])
            self.m_detach(b, c)
            self.origin[c] = b
            return True
        if op == "b_add":
            # a removed component goes back into the block it came from (a second coolant or an
            # overlapping solid would make the block physically meaningless, which is not this
            # property's subject)
            cands = [c for c in det(is_cmp) if c in self.origin and self.parent[c] is None]
            c = self.pick(cands, st["b"])
            if c is None:
                return False
            b = self.origin.pop(c)
            if st["c"] % 5 == 3:
                O[b].append(O[c])
                self.probe("children_appended")
            else:
                O[b].add(O[c])
            self.m_attach(b, c)
            return True
        if op == "c_remove":
            # an assembly leaves the core: to the spent-fuel pool (tracked discharge) or out of the model
            core = self.r.core
            ch = self.h[id(core)]
            if len(self.kids[ch]) < 2:
                return False
            a = self.pick(self.kids[ch], st["a"])
            discharge = bool(st["b"] % 3)
            sfp = self.r.excore.get("sfp") if hasattr(self.r, "excore") else None
            core.removeAssembly(O[a], discharge=discharge)
            self.m_detach(ch, a)
            if discharge and core._trackAssems and sfp is not None and id(sfp) in self.h:
                self.m_attach(self.h[id(sfp)], a)
                self.probe("assemblies_discharged_to_pool")
            return True
        if op == "b_replace":
            # "replacing": a block takes over the design of another block (typically control-rod
            # insertion); it receives copies, the replacement block keeps its own children
            blks = self.of_class(is_blk)
            b = self.pick(blks, st["a"])
            r = self.pick([x for x in blks if x != b], st["b"])
            if b is None or r is None:
                return False
            want = len(self.kids[r])
            O[b].replaceBlockWithBlock(O[r])
            for c in list(self.kids[b]):
                self.m_detach(b, c)
            # components taken out of the old design have no place in the new one
            self.origin = {c: bb for c, bb in self.origin.items() if bb != b}
            new = list(O[b])
            if len(new) != want:
                self.fail("C01.shape", f"step {k}: replaceBlockWithBlock gave {O[b]} {len(new)} children, the replacement block has {want}", what="replace-count", op=op)
            for c in new:
                if id(c) in self.h:
                    self.fail("C01.shape", f"step {k}: replaceBlockWithBlock put {c}, a child of {self.objs.get(self.parent[self.h[id(c)]])}, into {O[b]} (the replaced block must receive copies)", what="replace-moved-children", op=op)
                    return True
                self.kids[b].append(self.register_tree(c, b))
            self.probe("block_replacements")
            return True
        if op in ("copy", "pickle", "detach_copy"):
            cands = [hd for hd in sorted(O) if hd != 0 and type(O[hd]).__name__ not in ("Reactor", "Core", "SpentFuelPool", "ExcoreStructure") and len(self.walk_deep(O[hd])) < 120]
            s = self.pick(cands, st["a"])
            if s is None:
                return False
            src = O[s]
            pa = src.parent
            cp = copy.deepcopy(src) if op != "pickle" else pickle.loads(pickle.dumps(src))
            self.probe("copies_" + op)
            if src.parent is not pa:
                self.fail("C01.copy", f"step {k}: {op} changed the parent of the source object", what="source-parent", op=op)
            self.check_copy(k, op, src, cp)
            self.register_tree(cp, None)
            return True
        if op == "x_remove_nonchild":
            p = self.pick(self.generic, st["a"])
            # something that is not a child of p: a detached root, or a child of another composite
            cands = [hd for hd in self.roots() if hd != 0 and hd != p]
            cands += [c for g in self.generic if g != p for c in self.kids[g]]
            c = self.pick(cands, st["b"])
            if c is None:
                return False
            try:
                O[p].remove(O[c])
            except Exception:  # noqa: BLE001
                self.refused += 1
                return False
            self.fail("C01.rejected", f"step {k}: remove of a non-child was accepted", op=op)
            return False
        if op == "x_core_add_same_name":
            # a copy of an assembly of the core (it carries the same name) offered to the core at a free place
            core = self.r.core
            ch = self.h[id(core)]
            if not self.kids[ch]:
                return False
            src = O[self.pick(self.kids[ch], st["a"])]
            cp = copy.deepcopy(src)
            n_before = [id(x) for x in list(core)]
            try:
                core.add(cp, core.spatialGrid[9, 0 if str(core.geomType).startswith("hex") else 9, 0])
            except Exception:  # noqa: BLE001
                self.refused += 1
                if [id(x) for x in list(core)] != n_before or cp.parent is not None:
                    self.fail("C01.rejected", f"step {k}: the core refused a second assembly named {src.getName()}, but lists it among its children (parent of the refused copy: {cp.parent})", op=op)
                return False
            self.fail("C01.rejected", f"step {k}: a second assembly named {src.getName()} was accepted by the core", op=op)
            return False
        if op == "x_add_present":
            ps = [hd for hd in self.generic if self.kids[hd]]
            p = self.pick(ps, st["a"])
            if p is None:
                return False
            c = self.pick(self.kids[p], st["b"])
            try:
                O[p].add(O[c])
            except Exception:  # noqa: BLE001
                self.refused += 1
                return False
            self.fail("C01.rejected", f"step {k}: add of an object that is already a child was accepted", op=op)
            return False
        raise RuntimeError(op)

    def final_add_of_attached_object(self, k):
        """Last step of a history (the tree is not used afterwards): an object that still has a parent is
        added to another composite.  Refusing is fine, moving it is fine; being listed by both is not."""
        pairs = [(g, c) for g in self.generic for c in self.kids[g]]
        if not pairs:
            return
        old, c = pairs[len(pairs) // 2]
        others = [g for g in self.generic if g != old and not self.is_ancestor(c, g)]
        if not others:
            return
        new = others[0]
        try:
            self.objs[new].add(self.objs[c])
        except Exception:  # noqa: BLE001 - refused
            self.refused += 1
            return
        self.probe("add_of_attached_object_accepted")
        listed = [g for g in (old, new) if any(x is self.objs[c] for x in list(self.objs[g]))]
        if len(listed) > 1:
            def nm(o):
                return f"<{type(o).__name__} {getattr(o, 'name', '?')}>"  # (repr of an assembly without a locator raises)

            self.fail("C01.shape", f"after step {k} (add of an object that still has a parent): {nm(self.objs[c])} is listed by {nm(self.objs[old])} and by {nm(self.objs[new])}; its parent is {nm(self.objs[c].parent)}", what="two-parents", op="x_add_attached")

    def check_copy(self, k, op, src, cp):
        a = [src] + self.walk_deep(src)
        b = [cp] + self.walk_deep(cp)
        if [type(x).__name__ for x in a] != [type(x).__name__ for x in b] or [len(list(x)) for x in a] != [len(list(x)) for x in b]:
            self.fail("C01.copy", f"step {k}: {op} of {src} has a different shape", what="shape", op=op)
            return
        ids = {id(x) for x in a}
        if any(id(x) in ids for x in b):
            self.fail("C01.copy", f"step {k}: {op} of {src} shares a node with the original", what="shared", op=op)
        if cp.parent is not None:
            self.fail("C01.copy", f"step {k}: {op} of {src} has a parent", what="parent", op=op)
        for xa, x in zip(a, b):
            for c in list(x):
                if c.parent is not x:
                    self.fail("C01.copy", f"step {k}: in the {op}, child {c} of {x} points at parent {c.parent}", what="relink-parent", op=op)
            g = x.spatialGrid
            if g is not None and xa.spatialGrid is not None and xa.spatialGrid.armiObject is xa:
                # (a Cartesian block without a pin lattice uses a grid it does not own - the core's;
                # where the owner lies outside the copied subtree the statement promises nothing)
                # (a grid that several objects of the original use - blocks that went through a copy of a
                # Cartesian assembly keep sharing one - may name any of its users in the copy as its owner)
                # - unless the owner is the container of all the others (a core and its blocks): it stays the owner
                sharers = [xb for xo, xb in zip(a, b) if xo.spatialGrid is xa.spatialGrid]
                below = {id(d) for d in self.walk_deep(x)}
                contains_the_rest = all(xb is x or id(xb) in below for xb in sharers)
                # (and when an object outside the copied subtree uses that grid too - a block of an assembly
                # that has gone to the pool - the copy drags a copy of it along, which may end up as the owner:
                # the grid must then only not point back into the original)
                used_outside = any(o2.spatialGrid is xa.spatialGrid for o2 in self.objs.values() if id(o2) not in ids)
                if used_outside:
                    if id(g.armiObject) in ids:
                        self.fail("C01.copy", f"step {k}: in the {op}, the grid of {x} belongs to an object of the original, {g.armiObject}", what="relink-grid-original", op=op)
                elif g.armiObject is not x and not (len(sharers) > 1 and not contains_the_rest and any(g.armiObject is xb for xb in sharers)):
                    self.fail("C01.copy", f"step {k}: in the {op}, the grid of {x} belongs to {g.armiObject}", what="relink-grid", op=op)
                for ca, c in zip(list(xa), list(x)):
                    lg = getattr(c.spatialLocator, "grid", None)
                    lga = getattr(ca.spatialLocator, "grid", None)
                    if lg is not None and lg is not g:
                        self.fail("C01.copy", f"step {k}: in the {op}, child {c} of {x} is located in a grid that is not its parent's", what="relink-locator", op=op)
                    if lga is xa.spatialGrid and lga is not None and lg is not g:
                        self.fail("C01.copy", f"step {k}: in the {op}, child {c} of {x} lost its place in the parent's grid (the original's locator is attached, the copy's is {lg})", what="relink-locator-lost", op=op)
                    if lg is g and hasattr(c.spatialLocator, "_locations") and any(sub.grid is not g for sub in c.spatialLocator):
                        self.fail("C01.copy", f"step {k}: in the {op}, the multi-location of {c} belongs to the copy's grid but its sub-locations do not ({[type(sub.grid).__name__ for sub in c.spatialLocator][:3]})", what="relink-sublocations", op=op)


def execute(plan):
    cfg = plan["config"]
    log, scratch, clock, simos, d = enginea.new_run(plan)
    try:
        cs, o, _ = enginea.build_life(cfg, scratch, 0, d)
        u = Universe(plan, o, log)
        u.check_shape(-1, {"op": "init", "a": 0, "b": 0})
        u.check_queries(-1, {"op": "init", "a": 0, "b": 0})
        kinds = []
        for k, st in enumerate(plan["steps"]):
            did = u.apply(k, st)
            log.add("step", k, st["op"], bool(did))
            if did:
                u.changed += 1
                kinds.append(st["op"])
            u.check_shape(k, st)
            u.check_queries(k, st)
        if cfg.get("rejected"):
            u.final_add_of_attached_object(len(plan["steps"]))
        if cfg.get("coreCopy"):
            # the largest subtrees: a copy of the whole core, a pickle of the core or of the reactor
            how = cfg["coreCopy"]
            src = o.r if how == "pickle-reactor" else o.r.core
            cp = copy.deepcopy(src) if how == "deepcopy" else pickle.loads(pickle.dumps(src))
            u.probe("copies_of_the_whole_core_" + how)
            u.check_copy(len(plan["steps"]), how + " of the core", src, cp)
        shape = sorted((hd, u.parent[hd], tuple(u.kids[hd])) for hd in u.objs)
        for kk in set(kinds):
            u.probes["op_" + kk] = kinds.count(kk)
        u.probes["refused_operations"] = u.refused
        return kernel.result(
            kernel.PASS,
            digest=log.digest(),
            nevents=len(log),
            stats={"edits_applied": u.changed, "objects": len(u.objs)},
            probes=u.probes,
            known=u.known,
            sim={"steps": len(plan["steps"])},
            sig=kernel.digest([kinds, shape])[:16],
            nontrivial=u.changed > 0,
        )
    finally:
        enginea.cleanup(scratch)
