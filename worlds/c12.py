"""C12 — axial expansion preserves assembly height, mesh contiguity and component mass.

World B.  The history is a sequence of prescribed expansions (arbitrary component subsets and
factors), uniform-per-block growth, steps followed by their inverse, and thermal expansions by a
temperature field, applied to pin-type assemblies with a top dummy block built from generated
blueprint text.  The model is a ledger (total height, per-block elevations, grid bounds,
per-component masses) checked after every step.
"""
import copy

from sim import driver, kernel
from sim.kernel import OracleFailure
from worlds import enginea

PROPERTY = "C12"
WORLD = "B"
RULE = (
    "one run = generated pin-type assemblies (grid plate on/off, 1-4 fuel blocks, plenum on/off, top dummy "
    "block, seed-chosen heights) and 3-25 steps: prescribed expansion of a seed-chosen subset of solid "
    "components by factors in [0.9,1.12], uniform growth of all solids of seed-chosen blocks, a step "
    "followed by its inverse, thermal expansion by a seed-chosen temperature field; the height/contiguity/"
    "bounds/mass ledger is checked after every step; distinct = hash of step kinds and quantised factors; "
    "non-trivial = at least one component changed height"
)
REAL = [
    "AxialExpansionChanger.performPrescribedAxialExpansion/performThermalAxialExpansion/axiallyExpandAssembly/setAssembly",
    "AssemblyAxialLinkage, ExpansionData (target components, expansion factors, temperature field)",
    "Component.changeNDensByFactor/setTemperature/getMass, Block/Assembly elevations and axial grid",
    "blueprints -> reactor (generated pin-type assemblies with dummy block)",
]
STUB = ["no operator run, no clock, no I/O in this world"]
ASSUMPTIONS = [
    "expansion steps keep the dummy block's height positive (steps predicted to consume it are skipped)",
    "ledger tolerance 1e-10 relative (probe: 2e-15 after six successive expansions)",
    "temperature fields stay within 350-500 C so that the duct stays inside the pitch",
]
TIERS = {"quick": (200, 80, 120), "thorough": (12000, 600, 180)}
TOL = 1e-10


def gen_plan(rng, index, tier):
    nfuel = rng.choice([1, 2, 3, 4])
    plate = rng.random() < 0.6
    plenum = rng.random() < 0.7
    nb = (1 if plate else 0) + nfuel + (1 if plenum else 0) + 1
    heights = [rng.choice([10.0, 15.5, 25.0, 30.0]) for _ in range(nb - 1)] + [rng.choice([40.0, 60.0])]
    bp = {"rings": rng.choice([1, 1, 2]), "symmetry": "full", "nfuel": nfuel, "plate": plate, "plenum": plenum, "dummy": True, "heights": heights, "sfp": False, "geom": "hex"}
    if rng.random() < 0.35:
        # square assemblies; optionally a duct-only shield block (whose target is its duct) on top of
        # the fuel, and the fuel blocks' duct declared as a Rectangle of the same size
        bp["geom"] = "cartesian"
        if rng.random() < 0.6:
            bp["shield"] = True
            bp["heights"] = heights[: nb - 1] + [rng.choice([10.0, 25.0])] + heights[nb - 1 :]
            bp["rect_duct"] = rng.random() < 0.6
    if rng.random() < 0.3:
        bp["liner"] = True  # a solid liner of user-defined composition (material Custom) in the fuel blocks
    if rng.random() < 0.3:
        bp["fuel_target"] = rng.choice(["clad", "clad", "duct"])  # the blueprint designates the clad (or the duct: the second HT9 component of the block, with another input temperature), not the fuel, as the fuel blocks' target
    cfg = {"reactor": "gen", "blueprint": bp, "settings": {"nCycles": 1, "burnSteps": 1, "detailedAxialExpansion": True}, "actors": []}
    if rng.random() < 0.25:
        cfg["sharedComposition"] = True
    if nfuel >= 2 and not bp.get("fuel_target") and rng.random() < 0.35:
        cfg["lockOneFuelBlockToClad"] = rng.randrange(8)
    steps = []
    for _ in range(rng.randint(3, 25)):
        kind = rng.choice(["prescribed", "prescribed", "uniform", "roundtrip", "roundtrip_uniform", "thermal"])
        if rng.random() < 0.06:
            kind = "lowlevel"
        elif rng.random() < 0.05:
            kind = "lowlevel_thermal"
        elif plenum and rng.random() < 0.04:
            kind = "redim"
        s = {"op": kind, "asm": rng.randrange(100)}
        if kind in ("prescribed", "roundtrip", "lowlevel"):
            s["sel"] = rng.randrange(2**24)
            s["factors"] = [round(rng.uniform(0.9, 1.12), 4) for _ in range(8)]
        elif kind in ("uniform", "roundtrip_uniform"):
            s["blocks"] = rng.randrange(2**8)
            s["factors"] = [round(rng.uniform(0.92, 1.1), 4) for _ in range(6)]
        elif kind == "lowlevel_thermal":
            s["deltas"] = [rng.choice([50.0, 0.0, -50.0, 25.0]) for _ in range(rng.randint(2, 5))]
            s["subset"] = rng.choice([None, None, "fuel", "clad"])  # only some components are re-tempered (the fuel pins, say)
        elif kind == "redim":
            pass
        else:
            s["temps"] = [rng.choice([0.0, 25.0, 350.0, 400.0, 450.0, 475.0, 500.0]) for _ in range(4)]
            s["npts"] = rng.choice([40, 80])
        steps.append(s)
    if rng.random() < 0.08:
        # last step: the fuel is asked to grow by more than the dummy block can give
        steps.append({"op": "overgrow", "asm": rng.randrange(100), "factor": rng.choice([2.5, 4.0, 9.0, "exact", "exact"])})
    return {"config": cfg, "steps": steps}


def simplify(plan):
    bp = plan["config"]["blueprint"]
    if bp.get("rings", 1) > 1:
        p = copy.deepcopy(plan)
        p["config"]["blueprint"]["rings"] = 1
        yield p
    for i, s in enumerate(plan["steps"]):
        if s["op"] in ("roundtrip", "roundtrip_uniform"):
            p = copy.deepcopy(plan)
            p["steps"][i]["op"] = "prescribed" if s["op"] == "roundtrip" else "uniform"
            yield p
        if s["op"] in ("prescribed", "roundtrip") and bin(s["sel"]).count("1") > 1:
            p = copy.deepcopy(plan)
            sel = s["sel"]
            p["steps"][i]["sel"] = sel & (sel - 1)  # drop the lowest selected component
            yield p


def rel(a, b):
    return abs(a - b) <= TOL * max(1.0, abs(a), abs(b))


class Ledger:
    def __init__(self, a):
        from armi.materials.material import Fluid

        self.a = a
        self.height0 = float(a.getTotalHeight())
        self.nblocks = len(a)
        # the solids, by the ledger's own rule: everything whose material is not a fluid
        self.solids = [(bi, c) for bi, b in enumerate(a) for c in b if not isinstance(c.material, Fluid)]
        self.mass0 = {id(c): float(c.getMass()) for _, c in self.solids}

    def state(self):
        return {
            "heights": [float(b.getHeight()) for b in self.a],
            "ztop": [float(b.p.ztop) for b in self.a],
            "mass": {id(c): float(c.getMass()) for _, c in self.solids},
            "ndens": {id(c): {k: float(v) for k, v in c.getNumberDensities().items()} for _, c in self.solids},
        }


class Runner:
    def __init__(self, plan, o, log):
        from armi.reactor.converters.axialExpansionChanger import AxialExpansionChanger

        self.plan = plan
        self.r = o.r
        self.log = log
        self.asms = list(o.r.core)
        if plan["config"].get("sharedComposition"):
            # an analyst script gave the fuel of an assembly its composition from one dict (the same object)
            for a in self.asms:
                fuels = [b.getComponentByName("fuel") for b in a if b.getComponentByName("fuel") is not None]
                if len(fuels) >= 2:
                    nd = dict(fuels[0].p.numberDensities)
                    for f in fuels:
                        f.p.numberDensities = nd
        self.ledgers = {id(a): Ledger(a) for a in self.asms}
        lock = plan["config"].get("lockOneFuelBlockToClad")
        if lock is not None:
            # one fuel block of each assembly is told to follow its clad (public setter); its
            # neighbours of the same block type keep their own targets
            for a in self.asms:
                fb = [b for b in a if b.getComponentByName("fuel") is not None and b.getComponentByName("clad") is not None]
                if len(fb) >= 2:
                    b = fb[lock % len(fb)]
                    b.setAxialExpTargetComp(b.getComponentByName("clad"))
        # targets designated by the input (blueprint key) must stay the targets
        self.designated = {id(b): b.p.axialExpTargetComponent for a in self.asms for b in a if b.p.axialExpTargetComponent}
        self.changer = AxialExpansionChanger(detailedAxialExpansion=True)
        self.findings = driver.load_findings()
        self.known = {}
        self.probes = {}
        self.applied = 0
        self.sig = []

    def probe(self, k):
        self.probes[k] = self.probes.get(k, 0) + 1

    def fail(self, oracle, msg, **det):
        f = driver.match_finding(self.findings, PROPERTY, {"oracle": oracle, "detail": det})
        if f is not None:
            self.known[f["id"]] = self.known.get(f["id"], 0) + 1
            return
        raise OracleFailure(oracle, msg, det)

    # ---- invariants after every step
    def check(self, k, st, a, before, uniform_blocks=None):
        led = self.ledgers[id(a)]
        blocks = list(a)
        total = float(a.getTotalHeight())
        if not rel(total, led.height0) or not rel(sum(float(b.getHeight()) for b in blocks), led.height0):
            self.fail("C12.height", f"step {k} ({st['op']}): total height {total} (sum of blocks {sum(float(b.getHeight()) for b in blocks)}), was {led.height0}", what="total", op=st["op"])
        prev_top = 0.0
        tops = [0.0]
        for bi, b in enumerate(blocks):
            zb, zt, h = float(b.p.zbottom), float(b.p.ztop), float(b.getHeight())
            if not rel(zb, prev_top):
                self.fail("C12.contiguity", f"step {k} ({st['op']}): block {bi} bottom {zb} != top of the block below {prev_top}", what="gap", op=st["op"])
            if not (h > 0.0) or not rel(zt - zb, h):
                self.fail("C12.contiguity", f"step {k} ({st['op']}): block {bi} height {h}, ztop-zbottom {zt - zb}", what="height", op=st["op"])
            if not rel(float(b.p.z), zb + h / 2.0):
                self.fail("C12.contiguity", f"step {k} ({st['op']}): block {bi} centre {float(b.p.z)} != {zb + h / 2.0}", what="centre", op=st["op"])
            if int(b.spatialLocator.k) != bi:
                self.fail("C12.contiguity", f"step {k}: block {bi} has axial index {int(b.spatialLocator.k)}", what="index", op=st["op"])
            prev_top = zt
            tops.append(zt)
        bounds = [float(x) for x in a.spatialGrid._bounds[2]] if a.spatialGrid._bounds[2] is not None else None
        red = a.spatialGrid.reduce().bounds[2]
        bounds = [float(x) for x in red]
        if len(bounds) != len(tops) or any(not rel(x, y) for x, y in zip(bounds, tops)):
            self.fail("C12.bounds", f"step {k} ({st['op']}): axial grid bounds {bounds} != block elevations {tops}", what="bounds", op=st["op"])
        # each block top moves with its target component; target mass conserved below the dummy
        ed = self.changer.expansionData
        for bi, b in enumerate(blocks[:-1]):
            tname = b.p.axialExpTargetComponent
            if not tname:
                self.fail("C12.target", f"step {k}: block {bi} has no designated target component", what="none", op=st["op"])
                continue
            want = self.designated.get(id(b))
            if want and tname != want:
                self.fail("C12.target", f"step {k} ({st['op']}): block {bi} was designated to follow {want} but now follows {tname}", what="redesignated", op=st["op"])
            t = b.getComponentByName(tname)
            if ed is not None and not ed.isTargetComponent(t):
                self.fail("C12.target", f"step {k}: block {bi}: {tname} is named as target but not treated as one", what="flag", op=st["op"])
            if hasattr(t, "ztop") and t.ztop is not None and not rel(float(t.ztop), float(b.p.ztop)):
                self.fail("C12.target", f"step {k} ({st['op']}): block {bi} top {float(b.p.ztop)} != top of its target component {float(t.ztop)}", what="top", op=st["op"])
            m = float(t.getMass())
            if not rel(m / before["mass"][id(t)], 1.0):
                lk = self.changer.linked.linkedComponents.get(t) if self.changer.linked is not None else None
                low = getattr(lk, "lower", None) if lk is not None else None
                low_is_target = None if low is None else bool(ed.isTargetComponent(low))
                self.fail(
                    "C12.mass",
                    f"step {k} ({st['op']}): mass of target component {tname} of block {bi} changed in this step: {before['mass'][id(t)]} -> {m}"
                    + ("" if low_is_target is not False else f" (it is stacked on {low.name} of the block below, which is not that block's target)"),
                    what="target",
                    lowerLinkIsTarget=low_is_target,
                    target=str(tname),
                    lowerSameType=None if low is None else type(low) is type(t),
                )
        # uniform growth of a block: every solid of it conserves mass across the step
        if uniform_blocks:
            now = led.state()
            for bi, c in led.solids:
                if bi in uniform_blocks and not rel(now["mass"][id(c)] / before["mass"][id(c)], 1.0):
                    self.fail("C12.mass", f"step {k} ({st['op']}): uniform growth of block {bi} changed the mass of {c.name}: {before['mass'][id(c)]} -> {now['mass'][id(c)]}", what="uniform", op=st["op"])
        # who stands on whom, by the documented rule (both solid, identical type, same multiplicity,
        # overlapping cold inner/outer bounding diameters), against what the changer works with
        lk_all = self.changer.linked
        if lk_all is not None and lk_all.a is a:
            for bi, c in led.solids:
                if bi == 0 or bi >= led.nblocks - 1:
                    continue
                below = [x for bj, x in led.solids if bj == bi - 1]
                mine = [x for x in below if type(x) is type(c) and x.getDimension("mult") == c.getDimension("mult") and hasattr(x, "getCircleInnerDiameter") and max(x.getCircleInnerDiameter(cold=True), c.getCircleInnerDiameter(cold=True)) < min(x.getBoundingCircleOuterDiameter(cold=True), c.getBoundingCircleOuterDiameter(cold=True))]
                lk = lk_all.linkedComponents.get(c)
                low = getattr(lk, "lower", None) if lk is not None else None
                if len(mine) <= 1 and (low is None) != (not mine) or (low is not None and mine and low not in mine):
                    self.fail("C12.linkage", f"step {k} ({st['op']}): {c.name} of block {bi} is treated as standing on {getattr(low, 'name', None)} of the block below; by the linkage rule it stands on {[x.name for x in mine] or None} (cold dimensions as they are now)", what="rule", op=st["op"])
        # axially linked components stay stacked bottom-on-top
        linked = self.changer.linked
        if linked is not None and linked.a is a:
            for bi, c in led.solids:
                if bi == 0 or bi >= led.nblocks - 1:
                    continue
                lk = linked.linkedComponents.get(c)
                low = getattr(lk, "lower", None) if lk is not None else None
                if low is not None and hasattr(c, "zbottom") and hasattr(low, "ztop"):
                    if not rel(float(c.zbottom), float(low.ztop)):
                        self.fail("C12.linkage", f"step {k} ({st['op']}): {c.name} of block {bi} starts at {float(c.zbottom)}, the component it is linked to below ends at {float(low.ztop)}", what="stack", op=st["op"])

    # ---- steps
    def select(self, led, st):
        """Component subset and factors of a prescribed step (deterministic from the plan)."""
        comps, facs = [], []
        cand = [(bi, c) for bi, c in led.solids if bi < led.nblocks - 1]
        for j, (bi, c) in enumerate(cand):
            if (st["sel"] >> (j % 24)) & 1:
                comps.append(c)
                facs.append(st["factors"][j % len(st["factors"])])
        return comps, facs

    def uniform(self, led, st):
        comps, facs, blocks = [], [], set()
        for bi, c in led.solids:
            if bi < led.nblocks - 1 and (st["blocks"] >> (bi % 8)) & 1:
                comps.append(c)
                facs.append(st["factors"][bi % len(st["factors"])])
                blocks.add(bi)
        return comps, facs, blocks

    def safe(self, a, comps, facs):
        """Predicted dummy height after the step must stay clearly positive."""
        led = self.ledgers[id(a)]
        ed_targets = {}
        growth = 0.0
        blocks = list(a)
        fmap = {id(c): f for c, f in zip(comps, facs)}
        for bi, b in enumerate(blocks[:-1]):
            tname = b.p.axialExpTargetComponent
            if tname:
                t = b.getComponentByName(tname)
                f = fmap.get(id(t), 1.0)
            else:
                # target not yet determined (first use): be conservative
                f = max([fmap.get(id(c), 1.0) for _, c in led.solids if _ == bi] or [1.0])
            growth += float(b.getHeight()) * (f - 1.0)
        _ = ed_targets
        return float(blocks[-1].getHeight()) - growth > 5.0

    def apply(self, k, st):
        a = self.asms[st["asm"] % len(self.asms)]
        led = self.ledgers[id(a)]
        before = led.state()
        op = st["op"]
        ch = self.changer
        if op in ("prescribed", "roundtrip"):
            comps, facs = self.select(led, st)
            if not comps or not self.safe(a, comps, facs):
                return False
            ch.performPrescribedAxialExpansion(a, comps, facs, setFuel=True)
            self.check(k, st, a, before)
            self.prescribed_growth(k, st, a, before["heights"], comps, facs)
            if op == "roundtrip":
                mid = led.state()
                ch.performPrescribedAxialExpansion(a, comps, [1.0 / f for f in facs], setFuel=True)
                self.check(k, st, a, mid)
                # (the statement promises restoration for uniform growth only; a non-uniform step and
                # its inverse are two ordinary steps for the ledger)
                self.probe("nonuniform_inverse_pairs")
            self.sig.append((op, len(comps)))
            return True
        if op in ("uniform", "roundtrip_uniform"):
            comps, facs, blocks = self.uniform(led, st)
            if not comps or not self.safe(a, comps, facs):
                return False
            ch.performPrescribedAxialExpansion(a, comps, facs, setFuel=True)
            self.check(k, st, a, before, uniform_blocks=blocks)
            self.prescribed_growth(k, st, a, before["heights"], comps, facs)
            self.probe("uniform_blocks")
            if op == "roundtrip_uniform":
                mid = led.state()
                ch.performPrescribedAxialExpansion(a, comps, [1.0 / f for f in facs], setFuel=True)
                self.check(k, st, a, mid, uniform_blocks=blocks)
                self.restored(k, st, led, before)
                self.probe("roundtrips")
            self.sig.append((op, len(blocks)))
            return True
        if op == "lowlevel":
            # the changer's own building blocks: a prescription that is refused (a fraction <= 0 in it),
            # then an accepted one for fewer components, then the expansion
            comps, facs = self.select(led, st)
            if len(comps) < 3 or not self.safe(a, comps, facs):
                return False
            ch.setAssembly(a, setFuel=True)
            bad = list(facs)
            bad[-1] = -0.1
            try:
                ch.expansionData.setExpansionFactors(comps, bad)
            except RuntimeError:
                self.probe("prescription_refused")
            else:
                self.fail("C12.refusal", f"step {k}: a prescription with the growth fraction -0.1 was accepted", what="accepted")
            keep = [i for i in range(len(comps)) if i % 2 == 1][: max(1, len(comps) // 2)]
            comps2, facs2 = [comps[i] for i in keep], [facs[i] for i in keep]
            ch.expansionData.setExpansionFactors(comps2, facs2)
            ch.axiallyExpandAssembly()
            self.check(k, st, a, before)
            self.prescribed_growth(k, st, a, before["heights"], comps2, facs2)
            self.probe("lowlevel_expansion_after_refusal")
            self.sig.append((op, len(comps2)))
            return True
        if op == "redim":
            # the plenum's cladding gets other cold dimensions (it no longer overlaps the cladding below);
            # the expansions that follow use the same changer object
            for b in a:
                cl, gp = b.getComponentByName("clad"), b.getComponentByName("gap")
                if gp is not None and cl is not None:
                    cl.setDimension("od", 1.35, cold=True)
                    cl.setDimension("id", 1.22, cold=True)
                    self.probe("plenum_clad_redimensioned")
                    self.sig.append((op, 1))
                    return True
            return False
        if op == "lowlevel_thermal":
            # the changer's building blocks for thermal steps: one ExpansionData, several temperature
            # updates (some of them re-apply the temperature a component already has)
            ch.setAssembly(a, setFuel=True)
            for dT in st["deltas"]:
                blks = list(a)
                was = []
                for b in blks[:-1]:
                    tn = b.p.axialExpTargetComponent
                    t = b.getComponentByName(tn) if tn else None
                    was.append((t, None if t is None else float(t.temperatureInC), float(b.getHeight())))
                mid = led.state()
                for _, c in led.solids:
                    if st.get("subset") and c.name != st["subset"]:
                        continue  # (not re-tempered: such a component does not grow)
                    ch.expansionData.updateComponentTemp(c, float(c.temperatureInC) + dT)
                ch.expansionData.computeThermalExpansionFactors()
                ch.axiallyExpandAssembly()
                self.check(k, st, a, mid)
                self.thermal_growth(k, a, was)
            self.probe("lowlevel_thermal_steps")
            self.sig.append((op, len(st["deltas"])))
            return True
        if op == "overgrow":
            comps = [c for bi, c in led.solids if bi < led.nblocks - 1]
            fac = st["factor"]
            if fac == "exact":
                # growth that uses up the dummy block exactly: nothing is left of it, which is not a
                # block of positive height (rounding may leave a hair: then the step is an ordinary one)
                hs = [float(b.getHeight()) for b in a]
                fac = 1.0 + hs[-1] / sum(hs[:-1])
                self.probe("growth_that_uses_up_the_dummy_block_exactly")
            ch.performPrescribedAxialExpansion(a, comps, [fac] * len(comps), setFuel=True)
            self.check(k, st, a, before)  # (accepted: then it must be a valid assembly)
            self.probe("overgrow_accepted")
            return True
        if op == "thermal":
            n = st["npts"]
            H = led.height0
            grid = [H * (i + 0.5) / n for i in range(n)]
            temps = st["temps"]
            field = [temps[int(len(temps) * z / H) % len(temps)] for z in grid]
            # every block must hold a grid point (else the API refuses by contract)
            for b in a:
                if not any(float(b.p.zbottom) <= z <= float(b.p.ztop) for z in grid):
                    return False
            blks = list(a)
            was = []
            for b in blks[:-1]:
                tn = b.p.axialExpTargetComponent
                t = b.getComponentByName(tn) if tn else None
                was.append((t, None if t is None else float(t.temperatureInC), float(b.getHeight())))
            ch.performThermalAxialExpansion(a, grid, field, setFuel=True)
            self.check(k, st, a, before)
            self.thermal_growth(k, a, was)
            self.probe("thermal")
            self.sig.append((op, tuple(temps)))
            return True
        raise RuntimeError(op)

    def thermal_growth(self, k, a, was):
        """The boundary follows the target: where the target stands on the block below's top (bottom
        block, or nothing / that block's own target underneath), the block grows by the target
        material's linear expansion from its previous to its new temperature."""
        ch = self.changer
        blks = list(a)
        if True:
            for bi, (t, T0, h0) in enumerate(was):
                if t is None or blks[bi].p.axialExpTargetComponent != t.name:
                    continue
                lk = ch.linked.linkedComponents.get(t) if ch.linked is not None else None
                low = getattr(lk, "lower", None) if lk is not None else None
                if bi > 0 and low is not None and not ch.expansionData.isTargetComponent(low):
                    continue
                T1 = float(t.temperatureInC)
                m = t.material
                want = h0 * (1.0 + m.linearExpansionPercent(Tc=T1) / 100.0) / (1.0 + m.linearExpansionPercent(Tc=T0) / 100.0)
                got = float(blks[bi].getHeight())
                if abs(got - want) > 1e-9 * max(1.0, want):
                    self.fail("C12.target", f"step {k} (thermal): block {bi} follows {t.name} ({type(m).__name__}), which went from {T0} C to {T1} C: height {h0} -> {got}, the material's expansion gives {want}", what="thermal-growth", op="thermal")
                self.probe("thermal_growth_checked")

    def after_refusal(self, k, st):
        """A refused expansion must leave the assembly as it was (or at least a valid assembly)."""
        a = self.asms[st["asm"] % len(self.asms)]
        led = self.ledgers[id(a)]
        hs = [float(b.getHeight()) for b in a]
        total = sum(hs)
        bad = []
        if not rel(total, led.height0):
            bad.append(f"the block heights add up to {total}, the assembly is {led.height0} high")
        if any(h <= 0.0 for h in hs):
            bad.append(f"block heights {hs}")
        tops = 0.0
        for b in a:
            if not rel(float(b.p.zbottom), tops):
                bad.append(f"block bottoms/tops no longer line up ({float(b.p.zbottom)} vs {tops})")
                break
            tops = float(b.p.ztop)
        if bad:
            self.fail("C12.refusal", f"step {k} ({st['op']}): armi refused the expansion (negative height) but left the assembly changed: " + "; ".join(bad), what="not-atomic")

    def prescribed_growth(self, k, st, a, heights_before, comps, facs):
        """Where a block's target stands on the top of the block below (bottom block, or nothing /
        that block's own target underneath) the block grows by exactly its target's prescribed
        fraction - 1.0 if the target was not named."""
        ch = self.changer
        fmap = {id(c): f for c, f in zip(comps, facs)}
        blks = list(a)
        for bi, b in enumerate(blks[:-1]):
            tn = b.p.axialExpTargetComponent
            t = b.getComponentByName(tn) if tn else None
            if t is None:
                continue
            lk = ch.linked.linkedComponents.get(t) if ch.linked is not None else None
            low = getattr(lk, "lower", None) if lk is not None else None
            if bi > 0 and low is not None and not ch.expansionData.isTargetComponent(low):
                continue
            want = heights_before[bi] * fmap.get(id(t), 1.0)
            got = float(b.getHeight())
            if abs(got - want) > 1e-9 * max(1.0, want):
                self.fail("C12.target", f"step {k} ({st['op']}): block {bi} follows {tn}, whose prescribed growth is {fmap.get(id(t), 1.0)}: height {heights_before[bi]} -> {got}, expected {want}", what="prescribed-growth", op=st["op"])
            self.probe("prescribed_growth_checked")

    def restored(self, k, st, led, before):
        now = led.state()
        for name in ("heights", "ztop"):
            if any(not rel(x, y) for x, y in zip(before[name], now[name])):
                self.fail("C12.inverse", f"step {k} ({st['op']}): {name} after expansion + inverse {now[name]} != before {before[name]}", what=name, op=st["op"])
        for bi, c in led.solids:
            if not rel(now["mass"][id(c)] / before["mass"][id(c)], 1.0):
                self.fail("C12.inverse", f"step {k} ({st['op']}): mass of {c.name} (block {bi}) after expansion + inverse {now['mass'][id(c)]} != before {before['mass'][id(c)]}", what="mass", op=st["op"])
            for nuc, v in before["ndens"][id(c)].items():
                if not rel(now["ndens"][id(c)].get(nuc, 0.0) / v if v else 1.0, 1.0):
                    self.fail("C12.inverse", f"step {k} ({st['op']}): number density of {nuc} in {c.name} (block {bi}) not restored", what="ndens", op=st["op"])
                    break


def execute(plan):
    cfg = plan["config"]
    log, scratch, clock, simos, d = enginea.new_run(plan)
    try:
        cs, o, _ = enginea.build_life(cfg, scratch, 0, d)
        run = Runner(plan, o, log)
        for k, st in enumerate(plan["steps"]):
            try:
                did = run.apply(k, st)
            except ArithmeticError as e:
                if "negative height" not in str(e) and "non-positive height" not in str(e):
                    raise
                # armi refuses, loudly, a change that would squeeze a block to nothing; the
                # assembly is left half-changed, so the history ends here
                run.probe("refused_negative_height")
                log.add("step", k, st["op"], "refused")
                run.after_refusal(k, st)
                break
            log.add("step", k, st["op"], bool(did))
            if did:
                run.applied += 1
        return kernel.result(
            kernel.PASS,
            digest=log.digest(),
            nevents=len(log),
            stats={"steps_applied": run.applied, "steps_skipped": len(plan["steps"]) - run.applied},
            probes=run.probes,
            known=run.known,
            sim={"steps": len(plan["steps"])},
            sig=kernel.digest(run.sig)[:16],
            nontrivial=run.applied > 0,
        )
    finally:
        enginea.cleanup(scratch)
