"""C14 — fuel shuffling conserves the inventory and keeps the core's lookups truthful.

World B: one actor, no clock, no I/O.  The simulator controls the *history* (which fuel-management
operation on which assemblies comes next) and the points at which an operation is rejected.  After
every operation the inventory ledger / location-map model (models/shuffle.py) is advanced and the
statement's invariants are evaluated through the public API of the real core.
"""
import copy

from models import shuffle
from sim import driver, inputs, kernel
from sim.kernel import OracleFailure
from worlds import enginea

PROPERTY = "C14"
WORLD = "B"
RULE = (
    "one run = a generated hex core (1-3 rings, full or third symmetry, holes, 1-3 fuel blocks, optional "
    "grid-plate block designated stationary, spent-fuel pool on/off, trackAssems on/off) and a history of "
    "4-40 operations (swap, cascade of 2-5 with None entries, discharge for a fresh or a pooled assembly, "
    "add at a free location, remove with/without discharge; in the rejected-operation configuration also "
    "add at an occupied location, remove of an absent assembly, swap with mismatched stationary blocks); "
    "invariants checked after every operation; distinct = hash of the op-kind sequence plus final model "
    "state; non-trivial = at least one operation changed the model"
)
REAL = [
    "FuelHandler.swapAssemblies/_transferStationaryBlocks/swapCascade/dischargeSwap",
    "Core.add/removeAssembly/_removeListFromAuxiliaries/createAssemblyOfType/getAssemblyByName/getBlockByName/childrenByLocator",
    "Assembly.moveTo/insert/remove, Composite.moveTo, SpentFuelPool.add/remove",
    "blueprints -> reactor (generated hex cores)",
]
STUB = ["no operator run: operations are driven directly on a FuelHandler bound to a real operator/core", "no clock, no I/O in this world"]
ASSUMPTIONS = [
    "operations get arguments the API documents as legal unless the run is in the rejected-operation configuration",
    "stationary blocks of exchanged assemblies sit at the same axial indices (else the swap is a rejected operation)",
]
TIERS = {"quick": (200, 80, 120), "thorough": (12000, 600, 180)}


def gen_plan(rng, index, tier):
    rings = rng.choice([2, 2, 3])
    sym = rng.choice(["full", "full", "third periodic"])
    plate = rng.random() < 0.5
    bp = {"rings": rings, "symmetry": sym, "nfuel": rng.choice([1, 2, 3]), "plate": plate, "plenum": rng.random() < 0.3, "sfp": rng.random() < 0.85, "geom": rng.choice(["hex", "hex_corners_up"])}
    cells = [(i, j) for (i, j) in inputs.hex_cells(rings)]
    if sym != "full":
        bp["third"] = True  # filtered to the first third when the inputs are written
    if rng.random() < 0.25:
        # square assemblies on a Cartesian grid: full (centred on an assembly or on a corner), quarter
        sym = rng.choice(["full", "full", "quarter reflective through center assembly", "quarter periodic"])
        bp.update({"geom": "cartesian", "symmetry": sym, "rings": rng.choice([2, 2, 3])})
        bp.pop("third", None)
        if sym == "full" and rng.random() < 0.4:
            bp["even"] = True
        cells = inputs.cart_cells(bp["rings"] - 1, "full even" if bp.get("even") else sym)
    # holes: leave some cells empty so that there are free locations to add at
    holes = []
    if rng.random() < 0.7:
        cand = [c for c in cells if c != (0, 0)]
        holes = rng.sample(cand, min(len(cand) - 1, rng.randint(1, 3)))
    bp["holes"] = [list(h) for h in holes]
    st = {"nCycles": 1, "burnSteps": 1, "trackAssems": rng.random() < 0.7}
    if not bp["sfp"] and rng.random() < 0.5:
        st["trackAssems"] = False  # (else: tracking into the default pool of a blueprint without a pool system)
    if plate and rng.random() < 0.85:
        st["stationaryBlockFlags"] = ["GRID_PLATE"]
        if rng.random() < 0.35:
            # two kinds of stationary blocks; with one more fuel block in the outer assemblies the
            # plena do not line up, so exchanging an igniter with an outer assembly must be refused -
            # entirely: the grid plates, which do line up, stay where they are
            bp["plenum"] = True
            st["stationaryBlockFlags"] = ["GRID_PLATE", "PLENUM"]
            bp["oc_extra_fuel"] = rng.random() < 0.6
    else:
        st["stationaryBlockFlags"] = []
    if plate and rng.random() < 0.12:
        # an entry of two words names blocks that carry both flags (none here): nothing stays in place
        bp["plenum"] = True
        st["stationaryBlockFlags"] = [rng.choice(["GRID_PLATE PLENUM", "PLENUM FUEL"])]
    if bp["sfp"] and rng.random() < 0.35:
        bp["sfp_stock"] = rng.choice([1, 2, 3])  # assemblies stored in the pool from the start (also without tracking)
    cfg = {"reactor": "gen", "blueprint": bp, "settings": st, "actors": [], "rejected": rng.random() < 0.2}
    if rng.random() < 0.15:
        cfg["viaDatabase"] = True
    steps = []
    kinds = ["swap", "swap", "cascade", "discharge_fresh", "discharge_pool", "add", "remove", "remove", "readd"]
    if cfg["rejected"]:
        kinds += ["add_occupied", "remove_absent", "readd_present", "readd_removed", "add_copy", "add_stale_counter", "swap_with_pool", "discharge_twice", "discharge_incoming_in_core"]
    for _ in range(rng.randint(4, 40)):
        op = rng.choice(kinds)
        s = {"op": op, "a": rng.randrange(1000), "b": rng.randrange(1000)}
        if op == "cascade":
            s["idx"] = [rng.randrange(1000) if rng.random() > 0.15 else None for _ in range(rng.randint(2, 5))]
            if s["idx"][0] is None:
                s["idx"][0] = 0
        if op in ("discharge_fresh", "add", "add_occupied", "add_stale_counter", "discharge_twice"):
            s["type"] = rng.choice(["igniter fuel", "outer fuel"])
        if op == "remove":
            s["discharge"] = rng.random() < 0.6
        steps.append(s)
    return {"config": cfg, "steps": steps}


def simplify(plan):
    bp = plan["config"]["blueprint"]
    st = plan["config"]["settings"]
    for key, simple in (("plenum", False), ("nfuel", 1), ("geom", "hex")):
        if key == "geom" and bp.get("geom") == "cartesian":
            continue
        if bp.get(key) != simple:
            p = copy.deepcopy(plan)
            p["config"]["blueprint"][key] = simple
            yield p
    if bp.get("rings", 2) > 2:
        p = copy.deepcopy(plan)
        p["config"]["blueprint"]["rings"] = 2
        p["config"]["blueprint"]["holes"] = []
        yield p
    if bp.get("holes") and not any(s["op"] in ("add", "add_occupied") for s in plan["steps"]):
        p = copy.deepcopy(plan)
        p["config"]["blueprint"]["holes"] = []
        yield p
    if bp.get("third") and bp.get("symmetry") != "full":
        p = copy.deepcopy(plan)
        p["config"]["blueprint"]["symmetry"] = "full"
        p["config"]["blueprint"].pop("third", None)
        yield p
    if st.get("stationaryBlockFlags"):
        p = copy.deepcopy(plan)
        p["config"]["settings"]["stationaryBlockFlags"] = []
        yield p
    for i, s in enumerate(plan["steps"]):
        if s["op"] == "cascade" and len(s["idx"]) > 2:
            p = copy.deepcopy(plan)
            p["steps"][i]["idx"] = s["idx"][:-1]
            yield p


def _first_third_cells(rings):
    """Cells of the first third, through armi's own grid (input generation only, not an oracle)."""
    from armi.reactor import grids

    g = grids.HexGrid.fromPitch(16.8, numRings=rings + 1, symmetry="third periodic")
    out = []
    for (i, j) in inputs.hex_cells(rings):
        if g.isInFirstThird(g[i, j, 0]):
            out.append((i, j))
    return out


def block_fingerprint(b):
    comps = []
    for c in b:
        dims = {k: (c.p[k] if not isinstance(c.p[k], tuple) else ("link", c.p[k][0].name, c.p[k][1])) for k in c.DIMENSION_NAMES}
        comps.append((c.name, type(c).__name__, sorted((k, repr(v)) for k, v in dims.items()), sorted((k, float(v)) for k, v in c.getNumberDensities().items())))
    return (float(b.getHeight()), comps)


class World:
    def __init__(self, plan, o):
        from armi.physics.fuelCycle import fuelHandlers

        self.plan = plan
        self.o = o
        self.r = o.r
        self.core = o.r.core
        self.sfp = self.r.excore.get("sfp")
        self.fh = fuelHandlers.FuelHandler(o)
        st = plan["config"]["settings"]
        self.m = shuffle.Model(track=bool(st.get("trackAssems")) and self.sfp is not None)
        self.h2o = {}  # handle -> object
        self.o2h = {}  # id(object) -> handle
        self.fp = {}  # block handle -> fingerprint
        self.next = 0
        self.cells0 = set()
        for a in self.core:
            h = self.register(a)
            ij = tuple(int(x) for x in a.spatialLocator.indices[:2])
            self.m.loc[ij] = h
            self.m.initial.add(h)
            self.cells0.add(ij)
        if self.sfp is not None:
            for a in self.sfp:
                h = self.register(a)
                self.m.pool.append(h)
                self.m.initial.add(h)
        self.free = sorted(tuple(h) for h in plan["config"]["blueprint"].get("_free", []))
        self.findings = driver.load_findings()
        self.known = {}

    def register(self, a):
        h = self.next
        self.next += 1
        self.h2o[h] = a
        self.o2h[id(a)] = h
        # which blocks stay in place is what the *settings* say (not what the core ended up believing)
        from armi.reactor.flags import Flags

        sbf = [Flags.fromString(nm) for nm in self.plan["config"]["settings"].get("stationaryBlockFlags", [])]
        lst = []
        for b in a:
            bh = self.next
            self.next += 1
            self.h2o[bh] = b
            self.o2h[id(b)] = bh
            self.fp[bh] = block_fingerprint(b)
            if any(b.hasFlags(f) for f in sbf):
                self.m.stationary.add(bh)
            lst.append(bh)
        self.m.blocks[h] = lst
        return h

    # ---- invariants of the statement, after every operation
    def check(self, k, st):
        m, core = self.m, self.core

        def fail(oracle, msg, **det):
            det.update({"op": st["op"], "stationary": bool(self.core.stationaryBlockFlagsList), "track": m.track})
            f = driver.match_finding(self.findings, PROPERTY, {"oracle": oracle, "detail": det})
            if f is not None:
                self.known[f["id"]] = self.known.get(f["id"], 0) + 1
                return
            raise OracleFailure(oracle, f"after step {k} ({st['op']}): {msg}", det)

        kids = list(core)
        hk = [self.o2h.get(id(a)) for a in kids]
        if None in hk:
            fail("C14.inventory", "the core holds an assembly that was never there nor charged", what="unknown")
            return
        if len(set(hk)) != len(hk):
            fail("C14.inventory", "an assembly appears twice among the core's children", what="duplicate")
        if set(hk) != set(m.loc.values()):
            fail("C14.inventory", f"core children {sorted(hk)} != model {sorted(m.loc.values())}", what="core-set")
        pool = list(self.sfp) if self.sfp is not None else []
        hp = [self.o2h.get(id(a)) for a in pool]
        if sorted(hp, key=str) != sorted(m.pool, key=str):
            fail("C14.inventory", f"spent-fuel pool holds {hp}, model says {m.pool}", what="pool-set")
        if not m.ledger_ok():
            fail("C14.inventory", "present + pooled != initial + charged - purged (model inconsistency)", what="ledger")
        # each assembly sits where the operation put it; one assembly per location
        for ij, h in m.loc.items():
            a = self.h2o[h]
            got = tuple(int(x) for x in a.spatialLocator.indices[:2])
            if got != ij or a.parent is not core:
                fail("C14.location", f"assembly {a.getName()} should sit at {ij}, its locator says {got} (parent is core: {a.parent is core})", what="locator")
        cbl = {}
        for loc, a in core.childrenByLocator.items():
            ij = tuple(int(x) for x in loc.indices[:2])
            if ij in cbl:
                fail("C14.lookup", f"two entries of the location table resolve to {ij}", what="cbl-duplicate")
            cbl[ij] = self.o2h.get(id(a))
        if cbl != m.loc:
            extra = {k2: v for k2, v in cbl.items() if m.loc.get(k2) != v}
            miss = {k2: v for k2, v in m.loc.items() if cbl.get(k2) != v}
            fail("C14.lookup", f"location table differs from the assemblies present: table-only {extra}, missing {miss}", what="cbl")
        # name lookups
        for h in sorted(m.present()):
            a = self.h2o[h]
            name = a.getName()
            found = core.assembliesByName.get(name)
            if found is not a:
                fail("C14.lookup", f"assembly {name} ({'core' if h in m.loc.values() else 'pool'}) is not found under its current name (lookup gives {found})", what="assembly-name", where="core" if h in m.loc.values() else "pool")
            for b in a:
                bn = b.getName()
                fb = core.blocksByName.get(bn)
                if fb is not b:
                    fail("C14.lookup", f"block {bn} of {name} ({'core' if h in m.loc.values() else 'pool'}) is not found under its current name (lookup gives {fb})", what="block-name", where="core" if h in m.loc.values() else "pool", isStationary=self.o2h.get(id(b)) in m.stationary)
        for h in sorted(m.purged):
            a = self.h2o[h]
            for nm, obj in core.assembliesByName.items():
                if obj is a:
                    fail("C14.lookup", f"purged assembly is still returned by the assembly-name lookup under {nm}", what="purged-assembly")
        purged_blocks = {id(b) for h in m.purged for b in self.h2o[h]}
        for nm, obj in core.blocksByName.items():
            if id(obj) in purged_blocks and self.o2h.get(id(obj)) not in {bh for h in m.present() for bh in m.blocks[h]}:
                fail("C14.lookup", f"block of a purged assembly is still returned by the block-name lookup under {nm}", what="purged-block")
        # contents: block order, heights, dimensions, number densities unchanged up to the stationary exchange
        for h in sorted(m.present()):
            a = self.h2o[h]
            got = [self.o2h.get(id(b)) for b in a]
            if got != m.blocks[h]:
                fail("C14.contents", f"assembly {a.getName()} holds blocks {got}, model says {m.blocks[h]}", what="block-order")
            for idx, b in enumerate(a):
                if int(b.spatialLocator.k) != idx or b.parent is not a:
                    fail("C14.contents", f"block #{idx} of {a.getName()} has axial index {int(b.spatialLocator.k)} / wrong parent", what="block-index")
                if block_fingerprint(b) != self.fp[self.o2h[id(b)]]:
                    fail("C14.contents", f"contents of block #{idx} of {a.getName()} changed", what="fingerprint")
                # somebody looks at the cross sections at every step (they are cached on the block);
                # an assembly in the pool is a whole assembly, whatever part of it was in the model
                # while it sat on a symmetry line of the core
                area = float(b.getArea())
                if h in m.pool:
                    whole = float(sum(c.getArea() for c in b))
                    if abs(area - whole) > 1e-9 * max(abs(whole), 1e-300):
                        fail("C14.contents", f"block #{idx} of pool assembly {a.getName()} reports a cross section of {area}, its components add up to {whole}", what="pool-area")

    # ---- operations
    def pick_core(self, idx):
        hs = sorted(self.m.loc.values())
        return hs[idx % len(hs)] if hs else None

    def apply(self, k, st):
        m, core, fh = self.m, self.core, self.fh
        op = st["op"]
        if op == "swap":
            a, b = self.pick_core(st["a"]), self.pick_core(st["b"])
            if a is None:
                return False
            if not m.stationary_compatible(a, b):
                return self.expect_refusal(k, st, lambda: fh.swapAssemblies(self.h2o[a], self.h2o[b]))
            fh.swapAssemblies(self.h2o[a], self.h2o[b])
            m.swap(a, b)
            return True
        if op == "cascade":
            hs = []
            for i in st["idx"]:
                h = None if i is None else self.pick_core(i)
                hs.append(h)
            if hs[0] is None or len([h for h in hs if h is not None]) < 2:
                return False
            if any(h is not None and not m.stationary_compatible(hs[0], h) for h in hs[1:]):
                return False
            fh.swapCascade([None if h is None else self.h2o[h] for h in hs])
            m.cascade(hs)
            return True
        if op in ("discharge_fresh", "discharge_pool"):
            out = self.pick_core(st["a"])
            if out is None:
                return False
            fresh = op == "discharge_fresh"
            if fresh:
                obj = core.createAssemblyOfType(assemType=st["type"])
                inc = self.register(obj)
            else:
                if not m.pool:
                    return False
                inc = sorted(m.pool)[st["b"] % len(m.pool)]
            if not m.stationary_compatible(inc, out):
                if fresh:
                    return False  # (the fresh assembly was never part of the inventory)
                # a stored assembly whose stationary blocks do not line up: refused, and it stays stored
                return self.expect_refusal(k, st, lambda: fh.dischargeSwap(self.h2o[inc], self.h2o[out]))
            fh.dischargeSwap(self.h2o[inc], self.h2o[out])
            m.discharge(inc, out, fresh)
            return True
        if op == "add":
            free = [p for p in self.free if p not in m.loc]
            if not free:
                return False
            p = free[st["a"] % len(free)]
            obj = core.createAssemblyOfType(assemType=st["type"])
            h = self.register(obj)
            core.add(obj, core.spatialGrid[p[0], p[1], 0])
            m.add(h, p)
            return True
        if op == "readd":
            # an assembly that was taken out of the model is put back where it was (no location given:
            # it remembers its place), provided that place is still free
            cands = []
            for h in sorted(m.purged):
                a_obj = self.h2o[h]
                ij = tuple(int(x) for x in a_obj.spatialLocator.indices[:2]) if a_obj.spatialLocator is not None else None
                if a_obj.parent is None and ij is not None and ij not in m.loc and (ij in self.free or ij in self.cells0):
                    cands.append((h, ij))
            if not cands:
                return False
            h, ij = cands[st["a"] % len(cands)]
            core.add(self.h2o[h])
            m.purged.discard(h)
            m.loc[ij] = h
            self.probe_readd = getattr(self, "probe_readd", 0) + 1
            return True
        if op == "remove":
            a = self.pick_core(st["a"])
            if a is None or len(m.loc) <= 1:
                return False
            core.removeAssembly(self.h2o[a], discharge=st["discharge"])
            m.remove(a, st["discharge"])
            return True
        # ---- rejected operations: must raise, and the invariants must still hold afterwards
        if op == "add_occupied":
            occ = sorted(m.loc)
            p = occ[st["a"] % len(occ)]
            obj = core.createAssemblyOfType(assemType=st["type"])
            return self.expect_refusal(k, st, lambda: core.add(obj, core.spatialGrid[p[0], p[1], 0]))
        if op == "add_stale_counter":
            # the reactor's assembly counter is behind (as after a restart from an older state): the fresh
            # assembly is handed a number that an assembly of the core carries - refused, nothing changes
            free = [p for p in self.free if p not in m.loc]
            src = self.pick_core(st["a"])
            if not free or src is None:
                return False
            p = free[st["b"] % len(free)]
            r = self.core.r
            true_max = int(r.p.maxAssemNum)
            r.p.maxAssemNum = int(self.h2o[src].p.assemNum)
            obj = core.createAssemblyOfType(assemType=st["type"])
            try:
                return self.expect_refusal(k, st, lambda: core.add(obj, core.spatialGrid[p[0], p[1], 0]))
            finally:
                r.p.maxAssemNum = max(true_max, int(r.p.maxAssemNum))
        if op == "add_copy":
            # a deep copy of an assembly of the core carries that assembly's name: adding it at a free
            # location must be refused (entirely)
            if not self.free:
                return False
            src = self.pick_core(st["a"])
            if src is None:
                return False
            p = self.free[st["b"] % len(self.free)]
            if p in m.loc:
                return False
            dup = copy.deepcopy(self.h2o[src])
            return self.expect_refusal(k, st, lambda: core.add(dup, core.spatialGrid[p[0], p[1], 0]))
        if op == "swap_with_pool":
            # an in-core swap asked for an assembly that sits in the pool (a discharge swap is the call for that)
            a = self.pick_core(st["a"])
            if a is None or not m.pool:
                return False
            b = sorted(m.pool)[st["b"] % len(m.pool)]
            return self.expect_refusal(k, st, lambda: fh.swapAssemblies(self.h2o[a], self.h2o[b]))
        if op == "discharge_incoming_in_core":
            # the incoming assembly sits in the core itself (an in-core swap is the call for that)
            a = self.pick_core(st["a"])
            b = self.pick_core(st["b"])
            if a is None or b is None or a == b:
                return False
            return self.expect_refusal(k, st, lambda: fh.dischargeSwap(self.h2o[a], self.h2o[b]))
        if op == "discharge_twice":
            # the outgoing assembly has left the core already
            cands = sorted(m.purged | set(m.pool))
            if not cands:
                return False
            out = cands[st["a"] % len(cands)]
            inc = core.createAssemblyOfType(assemType=st["type"])
            return self.expect_refusal(k, st, lambda: fh.dischargeSwap(inc, self.h2o[out]))
        if op == "remove_absent":
            cands = sorted(m.purged | set(m.pool))
            if not cands:
                return False
            a = cands[st["a"] % len(cands)]
            return self.expect_refusal(k, st, lambda: core.removeAssembly(self.h2o[a]))
        if op == "readd_removed":
            # an assembly taken out earlier is added back *without* a locator (it still remembers its
            # indices) although its old location has been refilled: must be refused
            cands = [h for h in sorted(m.purged | set(m.pool))]
            for h in cands:
                a_obj = self.h2o[h]
                ij = tuple(int(x) for x in a_obj.spatialLocator.indices[:2]) if a_obj.spatialLocator is not None else None
                if a_obj.parent is None and ij in m.loc:
                    return self.expect_refusal(k, st, lambda: core.add(a_obj))
            return False
        if op == "readd_present":
            a = self.pick_core(st["a"])
            free = [p for p in self.free if p not in m.loc]
            if a is None or not free:
                return False
            p = free[st["b"] % len(free)]
            return self.expect_refusal(k, st, lambda: core.add(self.h2o[a], core.spatialGrid[p[0], p[1], 0]))
        raise RuntimeError(f"unknown op {op}")

    def expect_refusal(self, k, st, call):
        try:
            call()
        except Exception:  # noqa: BLE001 - the refusal
            self.refused += 1
            return False
        raise OracleFailure("C14.rejected", f"step {k} ({st['op']}): an operation whose precondition does not hold was accepted", {"op": st["op"]})

    refused = 0


def execute(plan):
    cfg = copy.deepcopy(plan["config"])
    bp = cfg["blueprint"]
    rings = int(bp.get("rings", 2))
    cart = bp.get("geom") == "cartesian"
    ring_of = inputs.cart_ring if cart else inputs.hex_ring
    cells = inputs.cart_cells(rings - 1, "full even" if bp.get("even") else bp.get("symmetry", "full")) if cart else inputs.hex_cells(rings)
    log, scratch, clock, simos, d = enginea.new_run(plan)
    try:
        if bp.get("third") and bp.get("symmetry") != "full":
            cells = _first_third_cells(rings)
        holes = {tuple(h) for h in bp.get("holes", [])}
        used = [c for c in cells if c not in holes or c == (0, 0)]
        bp["cells"] = [[i, j, "IC" if ring_of(i, j) == 1 else "OC"] for (i, j) in used]
        bp["_free"] = [list(c) for c in cells if c not in used]
        plan2 = dict(plan)
        plan2["config"] = cfg
        cs, o, _ = enginea.build_life(cfg, scratch, 0, d)
        if cfg.get("viaDatabase"):
            # the model the fuel handler works on was read back from a database (a restart together with a shuffle)
            import os

            from armi.bookkeeping.db.database import Database

            db = Database(os.path.join(scratch, "c14via.h5"), "w")
            db.open()
            try:
                db.writeInputsToDB(cs)
                db.writeToDB(o.r)
                r2 = db.load(0, 0, cs=cs, bp=o.r.blueprints, allowMissing=True)
            finally:
                db.close()
            o.reattach(r2, cs)
        w = World(plan2, o)
        w.check(-1, {"op": "init"})
        changed = 0
        kinds = []
        for k, st in enumerate(plan["steps"]):
            did = w.apply(k, st)
            log.add("step", k, st["op"], bool(did))
            if did:
                changed += 1
                kinds.append(st["op"])
            w.check(k, st)
        probes = {"op_" + kk: kinds.count(kk) for kk in set(kinds)}
        probes["refused_operations"] = w.refused
        probes["core_" + str(bp.get("geom", "hex")) + "_" + str(bp.get("symmetry", "full")).split(" ")[0]] = 1
        if w.m.stationary and any(x in kinds for x in ("swap", "cascade", "discharge_fresh", "discharge_pool")):
            probes["stationary_exchange"] = 1
        state = (sorted(w.m.loc.items()), sorted(w.m.pool), sorted(w.m.purged))
        return kernel.result(
            kernel.PASS,
            digest=log.digest(),
            nevents=len(log),
            stats={"operations_applied": changed, "operations_noop": len(plan["steps"]) - changed},
            probes=probes,
            sim={"operations": len(plan["steps"])},
            sig=kernel.digest([kinds, state])[:16],
            nontrivial=changed > 0,
            known=w.known,
        )
    finally:
        enginea.cleanup(scratch)


_ = driver
