"""C05 — every parameter value shape survives database encoding and decoding.

The database is treated as a key -> value store on a real HDF5 file.  A *writer process* (its own
flag configuration) assigns, transaction by transaction, one per-object collection to one untyped
verification parameter and writes a snapshot (Database.writeToDB -> later Database.load in the
reader, or the direct Database._writeParams -> file -> Database._readParams path for volume).  A
*reader process* with a different flag configuration (permutation + superset) loads the snapshots.

Oracle = the statement's own normalisations and nothing more: sequences may come back as
arrays/lists of equal values; an empty entry among ragged ones may come back unset; NaN is the unset
marker for reals (NaN <-> unset, also inside dict values); otherwise same values, shapes, numeric
kind and unset positions -- or an exception at write time.  Reading back a different value, or an
exception at read time, is the violation.
"""
import copy
import math
import os
import pickle

from sim import driver, kernel
from sim.kernel import OracleFailure
from worlds import c06, enginea

PROPERTY = "C05"
WORLD = "A"
RULE = (
    "one run = writer process (seed-chosen extra flags in a seed-chosen order) performing 6-40 "
    "transactions, each assigning one per-object collection (kind x None-pattern x value seed) to one "
    "verification parameter on one object class and writing a snapshot through writeToDB or the direct "
    "_writeParams/_readParams path, plus flag-set assignments; then a reader process with a permuted "
    "superset of the flags loads every accepted snapshot; distinct = distinct (kind, None pattern, "
    "level, path, accepted/rejected) tuples seen in the batch counted once each; non-trivial = the "
    "collection holds at least one value that is not None"
)
REAL = [
    "Database.writeToDB/load/_writeParams/_readParams/_writeAttrs/_resolveAttrs, packSpecialData/unpackSpecialData",
    "layout.replaceNonesWithNonsense/replaceNonsenseWithNones, NONE_MAP",
    "JaggedArray",
    "FlagSerializer.pack/unpack/_remapBits, Flags.extend",
    "h5py / HDF5 on a real file",
    "blueprints -> reactor (generated hex core)",
]
STUB = ["no operator run in this world: the writer drives Database directly", "wall clock (virtual)", "git describe"]
ASSUMPTIONS = [
    "collections are homogeneous in value kind (plus None), as the quantifier lists them",
    "NaN and unset are the same thing for reals (documented normalisation), also for dict values",
    "the reader's flag set is a permuted superset of the writer's, or lacks some of the writer's flags (armi learns them from the file)",
]
TIERS = {"quick": (64, 80, 150), "thorough": (4000, 600, 240)}

KINDS = [
    "float", "floatx", "int", "intx", "npint32", "npuint8", "npfloat32", "bool", "str", "strx", "strsent",
    "arr1", "arr2", "arrint", "arrbool", "nested", "tuple", "ragged", "ragged2", "raggedint", "raggedscalar", "raggedempty",
    "dict", "dictx", "arrnan", "arrstr", "raggednpscalar",
    # collections whose entries differ in kind: stored under numpy's promotion (value-preserving) or refused
    "mixnum", "mixarr", "mixnumstr", "mixboolint",
    # 2-D entries that are not C-contiguous in memory (transposed views, Fortran order)
    "ragged2F", "arr2F",
    # equal-shaped arrays with unset values *inside* them (reals: NaN normalisation; text: no marker)
    "arrinner", "arrinnerstr",
    # ragged 2-D entries, some of them with a zero-length dimension (shape (2, 0))
    "raggedzerodim",
    # entries that are themselves ragged (a list of rows of differing lengths)
    "innerragged",
    # dictionaries of equal size with differing keys
    "dictsame",
]
PATTERNS = ["none", "some", "all", "first", "last", "allbutone"]
LEVELS = ["block", "assembly", "component", "core"]
EXTRA_FLAGS = ["VERIFA", "VERIFB", "VERIFC", "VERIFD", "VERIFE", "VERIFF"]


class LCG:
    def __init__(self, seed):
        self.s = (seed * 6364136223846793005 + 1442695040888963407) & (2**64 - 1)

    def next(self):
        self.s = (self.s * 6364136223846793005 + 1442695040888963407) & (2**64 - 1)
        return self.s >> 33

    def choice(self, seq):
        return seq[self.next() % len(seq)]

    def randint(self, a, b):
        return a + self.next() % (b - a + 1)


def make_collection(kind, n, pattern, seedv):
    """Deterministic per-object collection for (kind, pattern, seed)."""
    import numpy as np

    g = LCG(seedv)
    fl = [0.0, -0.0, 1.5, -2.25, 3.0e-300, 1.0e300, 12345.678, -1.0]
    flx = fl + [float("inf"), float("-inf"), float("nan"), 5e-324]
    ints = [0, 1, -1, 7, 1000, -12345]
    intx = ints + [2**63 - 1, -(2**63), -(2**63) + 2, 2**31, -(2**31) + 2]
    strs = ["a", "bc", "hello world", "", "B0001-002", "x" * 30]
    strx = strs + ["ünï", "日本", "tab\there", "moved in cycle 3; ", " ", "line\n", "  lead", "end\t"]

    def one(j):
        if kind == "float":
            return g.choice(fl)
        if kind == "floatx":
            return g.choice(flx)
        if kind == "int":
            return g.choice(ints)
        if kind == "intx":
            return g.choice(intx)
        if kind == "npint32":
            return np.int32(g.choice([0, 5, -7, 2**31 - 1, -(2**31) + 2, -(2**31)]))
        if kind == "npuint8":
            return np.uint8(g.choice([0, 1, 2, 200, 255]))
        if kind == "npfloat32":
            return np.float32(g.choice([0.5, 1.25, -3.0, 1e30]))
        if kind == "bool":
            return bool(g.next() % 2)
        if kind == "str":
            return g.choice(strs)
        if kind == "strx":
            return g.choice(strx)
        if kind == "strsent":
            return g.choice(strs + ["<!None!>"])
        if kind == "arr1":
            return np.array([g.choice(fl) for _ in range(3)])
        if kind == "arrnan":
            return np.array([g.choice(flx) for _ in range(3)])
        if kind == "arr2":
            return np.array([[g.choice(fl) for _ in range(2)] for _ in range(2)])
        if kind == "arrint":
            return np.array([g.choice(ints) for _ in range(4)])
        if kind == "arrbool":
            return np.array([bool(g.next() % 2) for _ in range(3)])
        if kind == "arrstr":
            return np.array([g.choice(strs[:3]) for _ in range(2)])
        if kind == "nested":
            return [[g.choice(fl) for _ in range(2)] for _ in range(3)]
        if kind == "tuple":
            return tuple(g.choice(fl) for _ in range(3))
        if kind == "ragged":
            return np.array([g.choice(fl) for _ in range(g.randint(1, 4))])
        if kind == "raggedempty":
            return [g.choice(fl) for _ in range(g.randint(0, 3))]
        if kind == "ragged2":
            return np.array([[g.choice(fl) for _ in range(g.randint(1, 3))] for _ in range(1)] * g.randint(1, 3))
        if kind == "raggedint":
            return [g.choice(ints) for _ in range(g.randint(1, 4))]
        if kind == "raggedscalar":
            return g.choice(fl) if g.next() % 3 == 0 else [g.choice(fl) for _ in range(g.randint(2, 3))]
        if kind == "raggednpscalar":
            return np.int32(g.choice(ints)) if g.next() % 3 == 0 else [g.choice(ints) for _ in range(g.randint(2, 3))]
        if kind == "raggedzerodim":
            k_ = g.next() % 3
            return np.array([[g.choice(fl) for _ in range(k_)] for _ in range(2)], dtype=float)
        if kind == "innerragged":
            rows = g.randint(2, 3)
            return [[g.choice(fl) for _ in range(1 + (g.next() + r_) % 2 if r_ else 2)] for r_ in range(rows)][:: 1 if g.next() % 2 else -1]
        if kind == "arrinner":
            return [None if g.next() % 3 == 0 else g.choice(fl) for _ in range(3)]
        if kind == "arrinnerstr":
            return [None if g.next() % 3 == 0 else g.choice(strs[:3]) for _ in range(2)]
        if kind == "ragged2F":
            r, c_ = g.randint(2, 3), g.randint(2, 4)
            return np.array([[g.choice(fl) for _ in range(r)] for _ in range(c_)]).T  # shape (r, c_), a transposed view
        if kind == "arr2F":
            return np.asfortranarray([[g.choice(fl) for _ in range(3)] for _ in range(2)])
        if kind == "mixnum":
            return g.choice(ints) if g.next() % 2 else g.choice([0.5, -2.25, 1.5, 12345.678])
        if kind == "mixarr":
            return np.array([g.choice(ints[:5]) for _ in range(2)]) if g.next() % 2 else np.array([g.choice([0.5, -2.25, 1.5]) for _ in range(2)])
        if kind == "mixnumstr":
            return g.choice([1.5, 16.0, 7]) if g.next() % 2 else g.choice(strs[:3] + ["duct.op"])
        if kind == "mixboolint":
            return bool(g.next() % 2) if g.next() % 2 else g.choice(ints)
        if kind == "dict":
            keys = ["U235", "PU239", "ZR", "FE"]
            return {k: g.choice(fl[2:]) for k in keys if g.next() % 2} or {"U235": 1.0}
        if kind == "dictsame":
            # every object holds the same number of entries, under keys of its own choice
            keys = ["U235", "PU239", "ZR", "FE"]
            a_ = g.next() % 4
            b_ = (a_ + 1 + g.next() % 3) % 4
            return {keys[a_]: g.choice(fl[2:]), keys[b_]: g.choice(fl[2:])}
        if kind == "dictx":
            keys = ["U235", "PU239", "ZR", "FE"]
            return {k: g.choice(flx) for k in keys if g.next() % 2}
        raise ValueError(kind)

    vals = [one(j) for j in range(n)]
    if pattern == "all":
        return [None] * n
    if pattern == "some":
        return [None if g.next() % 3 == 0 else v for v in vals]
    if pattern == "first":
        return [None] + vals[1:]
    if pattern == "last":
        return vals[:-1] + [None]
    if pattern == "allbutone":
        k = g.next() % n
        return [v if j == k else None for j, v in enumerate(vals)]
    return vals


# ---- comparison under the documented normalisations ------------------------------------------------
def _isnan(x):
    return isinstance(x, float) and math.isnan(x)


def _kind_of(x):
    import numpy as np

    if isinstance(x, (bool, np.bool_)):
        return "b"
    if isinstance(x, (int, np.integer)):
        return "i"
    if isinstance(x, (float, np.floating)):
        return "f"
    if isinstance(x, str):
        return "s"
    return "?"


def same(written, got, real_kind, promote=False):
    """written/got are single per-object values.  Returns None if equal under the normalisations,
    else a short reason.  promote: the collection mixes kinds, so an entry may come back in the
    common numeric kind (bool -> int -> float) as long as its value is exactly the same."""
    import numpy as np

    if isinstance(written, np.generic):
        written = written.item()
    if isinstance(got, np.generic):
        got = got.item()
    w_unset = written is None or (real_kind and _isnan(written))
    g_unset = got is None or (real_kind and _isnan(got))
    if w_unset or g_unset:
        if isinstance(written, (list, tuple, np.ndarray)) and (len(written) == 0 or (isinstance(written, np.ndarray) and written.size == 0)) and got is None:
            return None  # empty entry among ragged ones may come back unset
        if isinstance(written, (list, tuple, np.ndarray)) and got is None and all(x is None for x in JaggedFlat(written)):
            return None  # an entry holding nothing but unset values is an unset entry
        if isinstance(written, (list, tuple, np.ndarray)) and real_kind and got is None:
            a = np.asarray(written, dtype=float)
            if a.size and np.isnan(a).all():
                return None  # an all-NaN real entry is an unset entry
        return None if (w_unset and g_unset) else f"unset mismatch: wrote {written!r}, read {got!r}"
    if isinstance(written, dict):
        if not isinstance(got, dict):
            return f"wrote dict, read {type(got).__name__}"
        w = {k: v for k, v in written.items() if not _isnan(v)}
        g = {k: v for k, v in got.items() if not _isnan(v)}
        if set(w) != set(g):
            return f"dict keys wrote {sorted(w)}, read {sorted(g)}"
        for k in w:
            if float(w[k]) != float(g[k]):
                return f"dict[{k}] wrote {w[k]!r}, read {g[k]!r}"
        return None
    if isinstance(written, (list, tuple, np.ndarray)):
        if isinstance(got, (str, bytes, dict)) or not isinstance(got, (list, tuple, np.ndarray)):
            return f"wrote a sequence, read {type(got).__name__}: {got!r}"
        try:
            a = np.asarray(written)
            b = np.asarray(got)
        except Exception as e:  # noqa: BLE001
            return f"uncomparable sequences: {e}"
        if a.dtype.kind == "O" or b.dtype.kind == "O":
            # inner Nones (NaN normalisation inside arrays) -> compare element-wise
            fa = [x for x in JaggedFlat(written)]
            fb = [x for x in JaggedFlat(got)]
            if len(fa) != len(fb):
                return f"sequence sizes differ: wrote {len(fa)}, read {len(fb)}"
            for x, y in zip(fa, fb):
                r = same(x, y, True)
                if r:
                    return r
            return None
        if a.shape != b.shape:
            if a.size == 0 and b.size == 0:
                return None
            return f"shape wrote {a.shape}, read {b.shape}"
        ka = "f" if a.dtype.kind == "f" else "i" if a.dtype.kind in "iu" else a.dtype.kind
        kb = "f" if b.dtype.kind == "f" else "i" if b.dtype.kind in "iu" else b.dtype.kind
        if ka != kb and a.size and not (promote and ka + kb in ("bi", "bf", "if")):
            return f"numeric kind wrote {a.dtype}, read {b.dtype}"
        if a.dtype.kind == "f":
            if not np.array_equal(a, b, equal_nan=True):
                return f"values wrote {a.tolist()!r}, read {b.tolist()!r}"
        elif not np.array_equal(a, b):
            return f"values wrote {a.tolist()!r}, read {b.tolist()!r}"
        return None
    if isinstance(got, (list, tuple, np.ndarray)) and np.asarray(got).shape == (1,):
        # "sequences come back as arrays": a scalar entry among ragged ones is stored as a
        # one-element sequence
        return same(written, np.asarray(got).tolist()[0], real_kind, promote)
    kw, kg = _kind_of(written), _kind_of(got)
    if kw != kg and not (promote and kw + kg in ("bi", "bf", "if")):
        return f"kind wrote {type(written).__name__} {written!r}, read {type(got).__name__} {got!r}"
    if written != got:
        return f"wrote {written!r}, read {got!r}"
    return None


def JaggedFlat(x):
    import numpy as np

    if isinstance(x, (list, tuple, np.ndarray)):
        for y in x:
            yield from JaggedFlat(y)
    else:
        yield x


REAL_KINDS = {"dictsame", "innerragged", "raggedzerodim", "arrinner", "ragged2F", "arr2F", "float", "floatx", "npfloat32", "arr1", "arr2", "arrnan", "nested", "tuple", "ragged", "ragged2", "raggedscalar", "raggedempty", "dict", "dictx"}


def is_sentinel(v):
    """The value the encoder itself uses as its None marker for this value's type."""
    import numpy as np

    if isinstance(v, str):
        return v == "<!None!>"
    if isinstance(v, (bool, np.bool_)):
        return False
    if isinstance(v, np.unsignedinteger):
        return int(v) == int(np.iinfo(type(v)).max) - 2
    if isinstance(v, np.signedinteger):
        return int(v) == int(np.iinfo(type(v)).min) + 2
    if isinstance(v, int):
        return v in (-(2**63) + 2, -(2**31) + 2)
    return False


def compare_collection(st, written, got):
    real = st["kind"] in REAL_KINDS
    out = []
    if len(written) != len(got):
        return [(0, f"object count wrote {len(written)}, read {len(got)}")]
    for j, (w, g) in enumerate(zip(written, got)):
        if st["kind"] == "raggedscalar" and isinstance(w, float) and not isinstance(g, float) and g is not None:
            # a scalar among ragged entries: "sequences come back as arrays" does not cover turning a
            # scalar into a sequence; compared as written
            pass
        r = same(w, g, real, st["kind"].startswith("mix"))
        if r:
            if is_sentinel(w) and g is None:
                r = "sentinel collision: " + r
            out.append((j, r))
    return out


def judge(st, t, path, bad, known, findings, written=()):
    """Raise for the first mismatch that is not a listed finding; count the listed ones."""
    for j, why in bad:
        det = {"kind": st["kind"], "pattern": st["pattern"], "why": why.split(":")[0].split(" wrote")[0], "anyUnset": any(w is None for w in written)}
        f = driver.match_finding(findings, PROPERTY, {"oracle": "C05.value", "detail": det})
        if f is not None:
            known[f["id"]] = known.get(f["id"], 0) + 1
            continue
        raise OracleFailure("C05.value", f"transaction {t} ({st['kind']}/{st['pattern']}/{st['level']}, {path} path), object #{j}: {why}", det)


# ---- plan ----------------------------------------------------------------------------------------
def gen_plan(rng, index, tier):
    cfg = {
        "reactor": "gen",
        "blueprint": {"rings": 2, "symmetry": "full", "nfuel": rng.choice([1, 2, 3]), "plate": rng.random() < 0.3, "sfp": True},
        "settings": {"nCycles": 1, "burnSteps": 1},
        "actors": [],
    }
    k = rng.randint(0, 4)
    wflags = rng.sample(EXTRA_FLAGS, k)
    extra = [f for f in EXTRA_FLAGS if f not in wflags]
    rflags = wflags + rng.sample(extra, rng.randint(0, len(extra)))
    if len(wflags) >= 3 and rng.random() < 0.3:
        # the reader has never heard of two (or more) of the writer's flags: it learns them from the file
        for nm in rng.sample(wflags, rng.randint(2, len(wflags) - 1)):
            rflags.remove(nm)
    rng.shuffle(rflags)
    if len(wflags) >= 2 and rng.random() < 0.2:
        # the reader defined only the first few of the writer's flags, in the writer's order (or none)
        rflags = wflags[: rng.randint(0, len(wflags) - 2)]
    cfg["flags"] = {"writer": wflags, "reader": rflags}
    if len(wflags) >= 2 and rng.random() < 0.6:
        # a second database written by a process that defined the same flags in another order: the
        # reader goes back and forth between the two files
        w2 = list(wflags)
        while w2 == wflags:
            rng.shuffle(w2)
        cfg["flags"]["writer2"] = w2
    steps = []
    for t in range(rng.randint(6, 40)):
        if wflags and rng.random() < 0.12:
            steps.append({"op": "flags", "t": t, "seedv": rng.randrange(2**31), "path": "db"})
            continue
        steps.append(
            {
                "op": "put",
                "t": t,
                "level": rng.choice(LEVELS),
                "param": rng.choice(["vP0", "vP1", "vP2", "vP3"]),
                "kind": rng.choice(KINDS),
                "pattern": rng.choice(PATTERNS),
                "seedv": rng.randrange(2**31),
                "path": rng.choice(["db", "direct", "direct", "direct"]),
            }
        )
        if steps[-1]["level"] == "component":
            steps[-1]["path"] = "db"  # _readParams on live components would leave linked dimensions unresolved
    return {"config": cfg, "steps": steps}


def simplify(plan):
    cfg = plan["config"]
    if cfg["flags"]["writer"] and not any(s["op"] == "flags" for s in plan["steps"]):
        p = copy.deepcopy(plan)
        p["config"]["flags"] = {"writer": [], "reader": []}
        yield p
    if cfg["blueprint"]["nfuel"] > 1:
        p = copy.deepcopy(plan)
        p["config"]["blueprint"]["nfuel"] -= 1
        yield p
    if cfg["blueprint"].get("plate"):
        p = copy.deepcopy(plan)
        p["config"]["blueprint"]["plate"] = False
        yield p
    for i, s in enumerate(plan["steps"]):
        if s["op"] == "put":
            if s["pattern"] != "none":
                p = copy.deepcopy(plan)
                p["steps"][i]["pattern"] = "none"
                yield p
            if s["path"] == "db" and s["level"] != "component":
                p = copy.deepcopy(plan)
                p["steps"][i]["path"] = "direct"
                yield p
            if s["level"] != "core":
                p = copy.deepcopy(plan)
                p["steps"][i]["level"] = "core"
                yield p


# ---- writer ----------------------------------------------------------------------------------------
def _targets(r, level):
    from armi.reactor.components import basicShapes

    if level == "component":
        return [c for c in c06.objects_at_level(r, "component") if type(c) is basicShapes.Circle]
    objs = c06.objects_at_level(r, level)
    cls = type(objs[0])
    return [o for o in objs if type(o) is cls]


def _sorted_like_db(objs):
    """The database stores objects of a class in depth-first order of the *sorted* tree; the
    per-object collection is attached to the objects themselves, so order is irrelevant."""
    return objs


def writer(plan, scratch, log, second=False):
    """Runs in its own process: extend flags, build the reactor, perform the transactions.
    Returns {"expect": {t: (level, [(serial, value)...])}, "rejected": {...}, "violation": ...}.
    second: the other writer (flag order "writer2", file kv2.h5, flag transactions only)."""
    import numpy as np
    from armi.bookkeeping.db.database import Database
    from armi.reactor.flags import Flags

    cfg = plan["config"]
    if cfg["flags"]["writer2" if second else "writer"]:
        _extend_flags(cfg["flags"]["writer2" if second else "writer"])
    d = enginea.Director(plan, log)
    cs, o, _ = enginea.build_life(cfg, scratch, 0, d)
    r = o.r
    out = {"expect": {}, "rejected": [], "accepted": [], "violation": None, "stats": {}, "cells": [], "known": {}}
    findings = driver.load_findings()
    db = Database(os.path.join(scratch, "kv2.h5" if second else "kv.h5"), "w")
    db.open()
    db.writeInputsToDB(cs)
    all_params = ["vP0", "vP1", "vP2", "vP3"]
    try:
        for st in plan["steps"]:
            t = st["t"]
            if second and st["op"] != "flags":
                continue
            if st["op"] == "flags":
                for lv in LEVELS:
                    for oo in _targets(r, lv):
                        for pn in all_params:
                            oo.p[pn] = None
                g = LCG(st["seedv"] + (977 if second else 0))
                blks = c06.objects_at_level(r, "block")
                names = {}
                for b in blks:
                    extra = [nm for nm in cfg["flags"]["writer"] if g.next() % 2]
                    f = b.p.flags
                    base = Flags.fromString(" ".join(extra)) if extra else None
                    b.p.flags = (f | base) if base is not None else f
                    names[int(b.p.serialNum)] = sorted(_flag_names(b.p.flags))
                # the reactor itself (its flags are the first ones a reader decodes) ...
                rextra = [nm for nm in cfg["flags"]["writer"] if g.next() % 2]
                if rextra:
                    r.p.flags = (r.p.flags | Flags.fromString(" ".join(rextra))) if r.p.flags else Flags.fromString(" ".join(rextra))
                # ... and everything else that carries flags (components mostly carry exactly one)
                for x in [r] + list(r.iterChildren(deep=True)):
                    f = getattr(x.p, "flags", None)
                    if f is not None and int(x.p.serialNum) not in names:
                        names[int(x.p.serialNum)] = sorted(_flag_names(f))
                r.p.cycle = 0
                r.p.timeNode = 0
                db.writeToDB(r, statePointName=f"t{t}")
                out["expect"][t] = ("flags", names)
                out["accepted"].append(t)
                log.add("put", t, "flags", "accepted")
                continue
            objs = _targets(r, st["level"])
            # everything else unset: the parameter under test is the only non-trivial collection
            for lv in LEVELS:
                for oo in _targets(r, lv):
                    for pn in all_params:
                        oo.p[pn] = None
            coll = make_collection(st["kind"], len(objs), st["pattern"], st["seedv"])
            for oo, v in zip(objs, coll):
                oo.p[st["param"]] = v
            cell = (st["kind"], st["pattern"], st["level"], st["path"])
            if st["path"] == "db":
                try:
                    db.writeToDB(r, statePointName=f"t{t}")
                except Exception as e:  # noqa: BLE001 - rejected at write time: legal
                    out["rejected"].append((t, type(e).__name__))
                    out["cells"].append(cell + ("rejected",))
                    log.add("put", t, st["kind"], st["pattern"], "rejected", type(e).__name__)
                    if db.hasTimeStep(0, 0, f"t{t}"):
                        # refused entirely: no half-written snapshot stays behind (it would be listed
                        # and could neither be loaded nor written again)
                        out["violation"] = ("C05.refusal", f"transaction {t} ({st['kind']}/{st['pattern']}/{st['level']}): the write was refused ({type(e).__name__}) but the snapshot t{t} is in the file", {"kind": st["kind"], "what": "half-written"})
                        return out
                    continue
                out["expect"][t] = (st, [(int(oo.p.serialNum), v) for oo, v in zip(objs, coll)])
                out["accepted"].append(t)
                out["cells"].append(cell + ("accepted",))
                log.add("put", t, st["kind"], st["pattern"], "accepted")
            else:
                grp = db.h5db.create_group(f"direct{t}")
                try:
                    db._writeParams(grp, objs)
                except Exception as e:  # noqa: BLE001
                    out["rejected"].append((t, type(e).__name__))
                    out["cells"].append(cell + ("rejected",))
                    log.add("put", t, st["kind"], st["pattern"], "rejected", type(e).__name__)
                    continue
                db.h5db.flush()
                for oo in objs:
                    oo.p[st["param"]] = None
                try:
                    Database._readParams(grp, type(objs[0]).__name__, objs)
                except Exception as e:  # noqa: BLE001
                    out["violation"] = ("C05.read-error", f"transaction {t} ({st['kind']}/{st['pattern']}/{st['level']}, direct path): accepted at write time, reading raised {type(e).__name__}: {e}", {"kind": st["kind"], "pattern": st["pattern"], "exc": type(e).__name__})
                    return out
                got = [oo.p[st["param"]] for oo in objs]
                bad = compare_collection(st, coll, got)
                out["accepted"].append(t)
                out["cells"].append(cell + ("accepted",))
                log.add("put", t, st["kind"], st["pattern"], "accepted-direct")
                try:
                    judge(st, t, "direct", bad, out["known"], findings, coll)
                except OracleFailure as e:
                    out["violation"] = (e.oracle, e.msg, e.detail)
                    return out
    finally:
        db.close(True)
    _ = np
    return out


def _flag_names(f):
    s = str(f)
    s = s.split(".", 1)[1] if "." in s else s
    return [x for x in s.split("|") if x]


def _extend_flags(names):
    from armi.reactor.flags import Flags
    from armi.utils import flags as futil

    Flags.extend({nm: futil.auto() for nm in names})


def run_writer(plan, scratch, log, second=False):
    """Fork a writer process; returns its result dict (raises for refusals / failures)."""
    if True:
        rfd, wfd = os.pipe()
        pid = os.fork()
        if pid == 0:
            os.close(rfd)
            try:
                try:
                    out = ("ok", writer(plan, scratch, kernel.EventLog() if second else log, second), [] if second else log.events)
                except kernel.Rejected as e:
                    out = ("rejected", str(e), [])
                except BaseException as e:  # noqa: BLE001
                    import traceback

                    in_repo, where = kernel.classify_exception(e)
                    out = ("exc", (in_repo, f"{type(e).__name__}: {e} @ {' < '.join(reversed(where))}", traceback.format_exc()), [])
                with os.fdopen(wfd, "wb") as w:
                    w.write(pickle.dumps(out, protocol=4))
            finally:
                os._exit(0)
        os.close(wfd)
        chunks = []
        with os.fdopen(rfd, "rb") as rf:
            while True:
                b = rf.read(1 << 20)
                if not b:
                    break
                chunks.append(b)
        os.waitpid(pid, 0)
        kind, out, events = pickle.loads(b"".join(chunks))
        if kind == "rejected":
            raise kernel.Rejected(out)
        if kind == "exc":
            in_repo, txt, tb = out
            if in_repo:
                raise OracleFailure("C05.unexpected-exception", "writer: " + txt, {"where": "writer"})
            raise RuntimeError("writer process failed:\n" + tb)
        for ev in events:
            log.add("w", ev)
        if out["violation"]:
            o, m, det = out["violation"]
            raise OracleFailure(o, m, det)
        return out


def execute(plan):
    cfg = plan["config"]
    log, scratch, clock, simos, d = enginea.new_run(plan)
    try:
        out = run_writer(plan, scratch, log)
        out2 = run_writer(plan, scratch, log, second=True) if cfg["flags"].get("writer2") else None
        # ---- reader process (this one): permuted superset of the writer's flags
        if cfg["flags"]["reader"]:
            _extend_flags(cfg["flags"]["reader"])
        from armi import settings
        from armi.bookkeeping.db.database import Database

        fname, extra = enginea.prepare_inputs(cfg, scratch)
        os.chdir(scratch)
        new = dict(enginea.BASE_OVERRIDES)
        new.update(extra)
        cs = settings.Settings(fname).modified(newSettings=new)
        nflag = nflag2 = 0
        known = dict(out.get("known", {}))
        findings = driver.load_findings()
        with Database(os.path.join(scratch, "kv.h5"), "r") as db:
            for t in sorted(out["expect"]):
                st, exp = out["expect"][t]
                try:
                    r2 = db.load(0, 0, cs=cs, statePointName=f"t{t}", allowMissing=True)
                except Exception as e:  # noqa: BLE001
                    what = "flags" if st == "flags" else f"{st['kind']}/{st['pattern']}/{st['level']}"
                    raise OracleFailure("C05.read-error", f"transaction {t} ({what}): accepted at write time, loading raised {type(e).__name__}: {e}", {"kind": what.split("/")[0], "exc": type(e).__name__})
                by_sn = {int(x.p.serialNum): x for x in [r2] + list(r2.iterChildren(deep=True))}
                if st == "flags":
                    for sn, names in exp.items():
                        got = sorted(_flag_names(by_sn[sn].p.flags))
                        if got != names:
                            raise OracleFailure("C05.flags", f"transaction {t}: block serial {sn} wrote flags {names}, reader (flag order {cfg['flags']['reader']} vs writer {cfg['flags']['writer']}) read {got}", {"what": "names"})
                    nflag += 1
                    if out2 is not None and t in out2["expect"]:
                        # the same reader process now reads the other writer's file, then this one again
                        with Database(os.path.join(scratch, "kv2.h5"), "r") as dbB:
                            rB = dbB.load(0, 0, cs=cs, statePointName=f"t{t}", allowMissing=True)
                        by_snB = {int(x.p.serialNum): x for x in [rB] + list(rB.iterChildren(deep=True))}
                        for sn, names in out2["expect"][t][1].items():
                            got = sorted(_flag_names(by_snB[sn].p.flags))
                            if got != names:
                                raise OracleFailure("C05.flags", f"transaction {t}: second file: block serial {sn} wrote flags {names} (writer order {cfg['flags']['writer2']}), the reader - which had read the first file (writer order {cfg['flags']['writer']}) before - read {got}", {"what": "names-second-file"})
                        rA = db.load(0, 0, cs=cs, statePointName=f"t{t}", allowMissing=True)
                        by_snA = {int(x.p.serialNum): x for x in [rA] + list(rA.iterChildren(deep=True))}
                        for sn, names in exp.items():
                            got = sorted(_flag_names(by_snA[sn].p.flags))
                            if got != names:
                                raise OracleFailure("C05.flags", f"transaction {t}: first file read again after the second: block serial {sn} wrote flags {names}, read {got}", {"what": "names-reread"})
                        nflag2 += 1
                    continue
                written = [v for _, v in exp]
                got = [by_sn[sn].p[st["param"]] for sn, _ in exp]
                bad = compare_collection(st, written, got)
                judge(st, t, "writeToDB/load", bad, known, findings, written)
        cells = out["cells"]
        probes = {}
        for c in cells:
            probes[f"kind_{c[0]}_{c[4]}"] = probes.get(f"kind_{c[0]}_{c[4]}", 0) + 1
        probes["flag_skew_snapshots"] = nflag
        probes["flag_two_writer_orders_reads"] = nflag2
        if set(cfg["flags"]["reader"]) - set(cfg["flags"]["writer"]):
            probes["reader_superset"] = 1
        stats = {"transactions": len(plan["steps"]), "accepted": len(out["accepted"]), "rejected_at_write": len(out["rejected"])}
        return kernel.result(
            kernel.PASS,
            digest=log.digest(),
            nevents=len(log),
            stats=stats,
            probes=probes,
            sim={"transactions": len(plan["steps"])},
            sig=kernel.digest(sorted(set(cells)))[:16],
            nontrivial=any(c[1] != "all" for c in cells),
            known=known,
        )
    finally:
        enginea.cleanup(scratch)


_ = driver
