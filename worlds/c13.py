"""C13 — symmetry conversions of the core multiply and restore the model exactly.

World B.  History: convert (third -> full), restore, add / remove edge assemblies, with parameter
edits in between, in every order the API accepts, on generated third-core hex reactors.  The
geometry oracle is independent: the expected full-core cell set is obtained by rotating third-core
cell *centres* by +-120 degrees and matching coordinates.
"""
import copy
import math

from sim import driver, inputs, kernel
from sim.kernel import OracleFailure
from worlds import c14, c16, enginea

PROPERTY = "C13"
WORLD = "B"
RULE = (
    "one run = generated third-core hex reactor (2-4 rings, holes, 1-2 fuel blocks, grid plate / plenum "
    "on/off) + 3-14 steps of convert / restore / addEdge / removeEdge / parameter edits in every order the "
    "API accepts; after convert: cell set == rotated centres, x3 ledger (counts, nuclide masses, volume, "
    "volume-integrated totals), independence of the copies; after restore and after add+remove edge: state "
    "digest == digest before; distinct = hash of the applied step sequence and the third-core cell set; "
    "non-trivial = at least one conversion ran"
)
REAL = [
    "ThirdCoreHexToFullCoreChanger.convert/restorePreviousGeometry/_scaleBlockVolIntegratedParams",
    "EdgeAssemblyChanger.addEdgeAssemblies/removeEdgeAssemblies",
    "Core.add/removeAssembly/getAssembliesOnSymmetryLine/symmetry, HexAssembly.rotate, HexGrid.getSymmetricEquivalents",
    "blueprints -> reactor (generated third-core hex cores)",
]
STUB = ["no operator run, no clock, no I/O in this world"]
ASSUMPTIONS = [
    "reals compare at 1e-12 relative (the centre assembly's volume-integrated values are multiplied and divided by 3)",
    "monotone counters (maxAssemNum) and move bookkeeping are not part of 'state'",
    "cell centres are taken from the locators' global coordinates; the rotation is done independently",
]
TIERS = {"quick": (120, 80, 150), "thorough": (6000, 600, 200)}
TOL = 1e-12
NOT_STATE = {"p.maxAssemNum"}


def gen_plan(rng, index, tier):
    rings = rng.choice([2, 3, 3, 4, 5, 5])
    bp = {"rings": rings, "symmetry": "third periodic", "third": True, "nfuel": rng.choice([1, 2]), "plate": rng.random() < 0.3, "plenum": rng.random() < 0.3, "sfp": rng.random() < 0.5, "geom": "hex"}
    holes = []
    cells = [c for c in inputs.hex_cells(rings) if c != (0, 0)]
    if rng.random() < 0.5:
        holes = rng.sample(cells, rng.randint(1, 3))
    if rng.random() < 0.15:
        holes.append((0, 0))  # a core without the centre assembly
    bp["holes"] = [list(h) for h in holes]
    # one changer object for every conversion of the run (what a long-lived interface does), or a
    # fresh one per conversion
    cfg = {"reactor": "gen", "blueprint": bp, "settings": {"nCycles": 1, "burnSteps": 1, "trackAssems": rng.random() < 0.5}, "actors": [], "reuseChanger": rng.random() < 0.5}
    steps = []
    uid = 0
    for _ in range(rng.randint(3, 14)):
        uid += 1
        op = rng.choice(["convert", "convert", "restore", "restore", "addEdge", "removeEdge", "edit", "edit"])
        s = {"op": op, "u": uid}
        if op == "edit":
            s["which"] = rng.choice(["power", "vVol", "vP0", "flux", "mgFlux", "boundary", "rotate"])
            s["idx"] = rng.randrange(1000)
        if op == "addEdge":
            # a solver runs while the edge assemblies are there: it recomputes a volume-integrated
            # quantity (halves on the symmetry lines), and the halves are joined before the removal
            s["solver"] = rng.random() < 0.4
            if s["solver"]:
                if rng.random() < 0.7:
                    uid += 1
                    steps.append({"op": "edit", "u": uid, "which": "power", "idx": rng.randrange(1000)})
                if rng.random() < 0.6:
                    # the quantity the solver recomputes holds block-by-block values (they differ from ring to ring)
                    uid += 1
                    steps.append({"op": "edit", "u": uid, "which": "vVol", "idx": rng.randrange(1000)})
                if rng.random() < 0.5:
                    # ... and a flux solution (multigroup, with its scalar)
                    uid += 1
                    steps.append({"op": "edit", "u": uid, "which": "mgFlux", "idx": rng.randrange(1000)})
                steps.append(s)
                if rng.random() < 0.7:
                    uid += 1
                    steps.append({"op": "removeEdge", "u": uid})
                continue
        steps.append(s)
    return {"config": cfg, "steps": steps}


def simplify(plan):
    bp = plan["config"]["blueprint"]
    for key, simple in (("plate", False), ("plenum", False), ("sfp", False), ("nfuel", 1)):
        if bp.get(key) != simple:
            p = copy.deepcopy(plan)
            p["config"]["blueprint"][key] = simple
            yield p
    if plan["config"].get("reuseChanger"):
        p = copy.deepcopy(plan)
        p["config"]["reuseChanger"] = False
        yield p
    if bp.get("rings", 2) > 2:
        p = copy.deepcopy(plan)
        p["config"]["blueprint"]["rings"] -= 1
        p["config"]["blueprint"]["holes"] = [h for h in bp.get("holes", []) if inputs.hex_ring(h[0], h[1]) <= bp["rings"] - 1]
        yield p
    if bp.get("holes"):
        p = copy.deepcopy(plan)
        p["config"]["blueprint"]["holes"] = bp["holes"][:-1]
        yield p


def close(a, b):
    if isinstance(a, bool) or isinstance(b, bool):
        return a == b
    if isinstance(a, (int, float)) and isinstance(b, (int, float)):
        return a == b or abs(a - b) <= TOL * max(abs(a), abs(b))
    if isinstance(a, list) and isinstance(b, list):
        return len(a) == len(b) and all(close(x, y) for x, y in zip(a, b))
    if isinstance(a, dict) and isinstance(b, dict):
        return set(a) == set(b) and all(close(a[k], b[k]) for k in a)
    return a == b


def core_digest(core):
    """State of the core by object identity: which assemblies sit where, and the observable state
    of everything beneath them."""
    out = {"symmetry": str(core.symmetry), "asm": {}}
    for a in core:
        ij = tuple(int(x) for x in a.spatialLocator.indices[:2])
        objs = {}
        for x in [a] + list(a.iterChildren(deep=True)):
            st = c16.obj_state(x)
            for k in NOT_STATE:
                st.pop(k, None)
            if "p.volume" in st:
                # the stored volume is a lazily refreshed cache: observe it through the public getter
                st.pop("p.volume")
                st["volume"] = float(x.getVolume())
            elif hasattr(x, "getVolume") and len(x):
                st["volume"] = float(x.getVolume())  # blocks and assemblies: through the public getter
            objs[id(x)] = st
        out["asm"][id(a)] = {"loc": ij, "name": a.getName(), "objs": objs}
    out["lookups"] = {
        "byLocator": sorted((tuple(int(x) for x in loc.indices[:2]), id(a)) for loc, a in core.childrenByLocator.items()),
        "byName": sorted((nm, id(a)) for nm, a in core.assembliesByName.items() if a.parent is core),
        # the complete tables, by name only: entries for objects that are gone must be gone too
        "allAssemblyNames": sorted(nm for nm, a in core.assembliesByName.items() if a.parent is not None or nm in {x.getName() for x in core}),
        "staleAssemblyNames": sorted(nm for nm, a in core.assembliesByName.items() if a.parent is None),
        "staleBlockNames": sorted(nm for nm, b in core.blocksByName.items() if b.parent is None or b.parent.parent is None),
    }
    return out


def diff_digest(a, b):
    if a["symmetry"] != b["symmetry"]:
        yield ("symmetry", a["symmetry"], b["symmetry"])
    if set(a["asm"]) != set(b["asm"]):
        yield ("assemblies", f"{len(set(a['asm']) - set(b['asm']))} missing", f"{len(set(b['asm']) - set(a['asm']))} extra")
        return
    for ida, ea in a["asm"].items():
        eb = b["asm"][ida]
        if ea["loc"] != eb["loc"]:
            yield ("location", ea["loc"], eb["loc"])
        if ea["name"] != eb["name"]:
            yield ("name", ea["name"], eb["name"])
        for ido, sa in ea["objs"].items():
            sb = eb["objs"].get(ido)
            if sb is None:
                yield ("descendants", "present", "absent")
                continue
            for k in sa:
                if not close(sa[k], sb.get(k)):
                    yield (k, sa[k], sb.get(k))
    for k in ("byLocator", "byName", "staleAssemblyNames", "staleBlockNames"):
        if a["lookups"][k] != b["lookups"][k]:
            yield ("lookup-" + k, str(a["lookups"][k])[:120], str(b["lookups"][k])[:120])


def totals(core):
    t = {"n": len(core), "volume": float(core.getVolume()) if hasattr(core, "getVolume") else 0.0}
    for nuc in ("U235", "U238", "ZR", "FE", "NA23"):
        try:
            t["m_" + nuc] = float(core.getMass(nuc))
        except Exception:  # noqa: BLE001
            pass
    t["mass"] = float(core.getMass())
    for pn in ("power", "vVol"):
        tot = 0.0
        for b in core.iterBlocks():
            v = b.p[pn]
            if v is not None:
                tot += float(v)
        t["sum_" + pn] = tot
    for pn in ("mgFlux", "lastMgFlux"):
        tot = 0.0
        for b in core.iterBlocks():
            v = b.p[pn]
            if v is not None and len(v):
                tot += float(sum(v))
        t["sum_" + pn] = tot
    return t


class Runner:
    def __init__(self, plan, o, cs, log):
        self.plan = plan
        self.r = o.r
        self.core = o.r.core
        self.cs = cs
        self.log = log
        self.findings = driver.load_findings()
        self.known = {}
        self.probes = {}
        self.changer = None  # active ThirdCoreHexToFullCoreChanger (core is full)
        self.before_convert = None
        self.edge = None  # active EdgeAssemblyChanger with added assemblies
        self.before_edge = None
        self.had_edge_before_convert = False
        self.applied = []
        self.reusable = None
        self.last_changer = None
        self.assigned = set()
        self.list_built_with = None
        self.edge_op_since = {}  # parameter name -> an edge operation happened since its last assignment
        self.marks_cleared = {}  # parameter name -> armi's "assigned since the last geometry transformation" mark is cleared (model of the documented bookkeeping)
        self.centre_before = {}

    def probe(self, k):
        self.probes[k] = self.probes.get(k, 0) + 1

    def fail(self, oracle, msg, **det):
        f = driver.match_finding(self.findings, PROPERTY, {"oracle": oracle, "detail": det})
        if f is not None:
            self.known[f["id"]] = self.known.get(f["id"], 0) + 1
            return
        raise OracleFailure(oracle, msg, det)

    def centres(self):
        return {id(a): tuple(float(x) for x in a.spatialLocator.getGlobalCoordinates()[:2]) for a in self.core}

    def apply(self, k, st):
        from armi.reactor import grids
        from armi.reactor.converters import geometryConverters as gc

        op = st["op"]
        core = self.core
        full = bool(core.isFullCore)
        if op == "edit":
            if self.changer is not None or self.edge is not None:
                return False  # the statement compares with the state *before* a pending conversion
            blks = list(core.iterBlocks())
            if st["which"] in ("power", "vVol"):
                self.edge_op_since[st["which"]] = False
                self.marks_cleared[st["which"]] = False
                self.assigned.add(st["which"])
            if st["which"] == "mgFlux":
                self.assigned.add("lastMgFlux")
                self.edge_op_since["lastMgFlux"] = False
                self.marks_cleared["lastMgFlux"] = False
            if st["which"] == "power":
                for j, b in enumerate(blks):
                    b.p.power = 1000.0 * st["u"] + j
            elif st["which"] == "vVol":
                for j, b in enumerate(blks):
                    b.p.vVol = 10.0 * st["u"] + 0.25 * j
            elif st["which"] == "mgFlux":
                import numpy as np

                self.assigned.add("mgFlux")
                self.edge_op_since["mgFlux"] = False
                self.marks_cleared["mgFlux"] = False
                for j, b in enumerate(blks):
                    arr = np.array([1.0 * st["u"] + j, 2.0, 0.5 * j])
                    # the same array object on two parameters (what "last = current" bookkeeping does)
                    b.p.mgFlux = arr
                    b.p.lastMgFlux = arr
                    # ... and the scalar flux that belongs to it (the integrated flux over the volume
                    # of the part of the block that is in the model)
                    b.p.flux = float(sum(arr)) / float(b.getVolume())
            elif st["which"] == "boundary":
                import numpy as np

                # six-valued data on the corners and edges of every block
                for j, b in enumerate(blks):
                    b.p.cornerFastFlux = np.array([100.0 * st["u"] + 10.0 * j + i for i in range(6)])
                    b.p.pointsEdgeFastFluxFr = np.array([0.5 * st["u"] + j + 0.1 * i for i in range(6)])
                    if st["u"] % 2 == 0:
                        # two values on every corner (a table of six rows)
                        b.p.cornerFastFlux = np.array([[100.0 * st["u"] + 10.0 * j + i, 0.25 * j + 0.01 * i] for i in range(6)])
                    # ... and a mechanical displacement vector (bowing)
                    b.p.displacementX = 1e-3 * (1 + (st["u"] + j) % 5)
                    b.p.displacementY = -4e-4 * (1 + j % 3)
                self.boundary_assigned = True
            elif st["which"] == "rotate":
                # fuel management turned an assembly earlier on
                asms = [a for a in core if tuple(int(x) for x in a.spatialLocator.indices[:2]) != (0, 0)]
                if not asms:
                    return False
                asms[st["idx"] % len(asms)].rotate(math.radians(60.0 * (1 + st["idx"] % 5)))
                self.probe("source_assembly_rotated_beforehand")
            elif st["which"] == "flux":
                if "mgFlux" in self.assigned:
                    return False  # the scalar flux stays the one that belongs to the multigroup flux
                blks[st["idx"] % len(blks)].p.flux = 1e12 + st["u"]
            else:
                blks[st["idx"] % len(blks)].p.vP0 = float(st["u"])
            # edits made while converted are part of the state the restore must keep?  No: the
            # statement compares with the state *before* the conversion, so edits are only made
            # while no conversion is pending
            return True
        if op == "convert":
            if full:
                return False
            self.edge = None  # convert removes edge assemblies itself
            self.had_edge_before_convert = bool(core.getAssembliesOnSymmetryLine(grids.BOUNDARY_120_DEGREES))
            self.before_convert = core_digest(core)
            t0 = totals(core)
            self.centre_before = {}
            for a in core:
                if tuple(int(x) for x in a.spatialLocator.indices[:2]) == (0, 0):
                    for b in a:
                        for pn in sorted(self.assigned):
                            v = b.p[pn]
                            self.centre_before[(b.getName(), pn)] = None if v is None else (v.copy() if hasattr(v, "copy") else v)
            src_centres = self.centres()
            edge_ids = {id(a) for a in core.getAssembliesOnSymmetryLine(grids.BOUNDARY_120_DEGREES)}
            src = {i: xy for i, xy in src_centres.items() if i not in edge_ids}
            src_objs = {id(x) for a in core for x in [a] + list(a.iterChildren(deep=True))}
            if self.plan["config"].get("reuseChanger"):
                if self.reusable is None:
                    self.reusable = gc.ThirdCoreHexToFullCoreChanger(self.cs)
                    self.list_built_with = set(self.assigned)
                else:
                    self.probe("changer_reused")
                ch = self.reusable
            else:
                ch = gc.ThirdCoreHexToFullCoreChanger(self.cs)
            ch.convert(self.r)
            self.changer = ch
            self.check_converted(k, st, src, t0, src_objs, edge_ids)
            self.probe("convert")
            if self.had_edge_before_convert:
                self.probe("convert_with_edge_assemblies")
            return True
        if op == "restore":
            if self.changer is None:
                # nothing to undo: restoring again with the changer of the last conversion (or with
                # one that never converted anything) must leave the core as it is
                ch = self.last_changer or gc.ThirdCoreHexToFullCoreChanger(self.cs)
                if self.edge is not None:
                    return False
                was = core_digest(core)
                ch.restorePreviousGeometry(self.r)
                for field, a, b in diff_digest(was, core_digest(core)):
                    self.fail("C13.restore", f"step {k}: restorePreviousGeometry with no conversion pending changed the core in {field}: before {str(a)[:160]} | after {str(b)[:160]}", field="idle-" + (field if not field.startswith("p.") else "param"), hadEdgeAssemblies=False)
                    break
                self.probe("restore_with_nothing_pending")
                return False
            self.changer.restorePreviousGeometry(self.r)
            self.last_changer = self.changer
            self.changer = None
            now = core_digest(core)
            for field, a, b in diff_digest(self.before_convert, now):
                self.fail(
                    "C13.restore",
                    f"step {k}: after convert + restore the core differs from its state before the conversion in {field}: before {str(a)[:160]} | after {str(b)[:160]}",
                    field=field if not field.startswith("p.") else "param",
                    hadEdgeAssemblies=self.had_edge_before_convert,
                )
                break
            self.probe("restore")
            return True
        if op == "addEdge":
            if full or self.edge is not None:
                return False
            if core.getAssembliesOnSymmetryLine(grids.BOUNDARY_120_DEGREES):
                return False
            self.before_edge = core_digest(core)
            n0 = len(core)
            lower = core.getAssembliesOnSymmetryLine(grids.BOUNDARY_0_DEGREES)
            e = gc.EdgeAssemblyChanger()
            e.addEdgeAssemblies(core)
            self.edge = e
            added = len(core) - n0
            # somebody looks at the model while the edge assemblies are there (areas and volumes
            # are cached); what the totals are in that state is C02's subject, not this property's
            totals(core)
            core_digest(core)
            for pn in self.assigned:
                self.edge_op_since[pn] = True
                self.marks_cleared[pn] = True
            self.edge_solver = False
            if st.get("solver") and added:
                # (the copies on the 120-degree line arrive with half the source's value; the solver
                # writes the half on both twins)
                for aa in core.getAssembliesOnSymmetryLine(grids.BOUNDARY_0_DEGREES):
                    for b in aa:
                        if b.p.vVol is not None:
                            b.p.vVol = b.p.vVol / 2.0
                for aa in core.getAssembliesOnSymmetryLine(grids.BOUNDARY_120_DEGREES):
                    for b in aa:
                        if b.p.vVol is not None:
                            b.p.vVol = b.p.vVol * 1.0
                self.edge_solver = True
                if "vVol" in self.assigned:
                    self.marks_cleared["vVol"] = False
                if "mgFlux" in self.assigned:
                    # the flux solution too: half of the integrated multigroup flux on either twin
                    # (new arrays; the scalar flux is intensive and stays)
                    import numpy as np

                    for aa in core.getAssembliesOnSymmetryLine(grids.BOUNDARY_0_DEGREES):
                        for b in aa:
                            if b.p.mgFlux is not None and len(b.p.mgFlux):
                                b.p.mgFlux = np.array(b.p.mgFlux, dtype=float) / 2.0
                    for aa in core.getAssembliesOnSymmetryLine(grids.BOUNDARY_120_DEGREES):
                        for b in aa:
                            if b.p.mgFlux is not None and len(b.p.mgFlux):
                                b.p.mgFlux = np.array(b.p.mgFlux, dtype=float) * 1.0
                    self.marks_cleared["mgFlux"] = False
                    self.probe("flux_solver_ran_with_edge_assemblies")
                self.probe("solver_ran_with_edge_assemblies")  # addEdgeAssemblies clears the "assigned since the last geometry transformation" marks
            nonc = [a for a in lower if tuple(int(x) for x in a.spatialLocator.indices[:2]) != (0, 0)]
            if added != len(nonc):
                self.fail("C13.edge", f"step {k}: addEdgeAssemblies added {added} assemblies for {len(nonc)} assemblies on the lower symmetry line", what="count")
            names = [a.getName() for a in core]
            if len(set(names)) != len(names):
                self.fail("C13.edge", f"step {k}: duplicate assembly names after addEdgeAssemblies", what="names")
            self.probe("addEdge")
            return True
        if op == "removeEdge":
            if full:
                return False
            e = self.edge or gc.EdgeAssemblyChanger()
            had = self.edge is not None
            n_before = len(core)
            if had and getattr(self, "edge_solver", False):
                # the halves are joined for the quantities the solver (is known to have) produced;
                # "power" is named too, as the gamma solver's driver does, but was not recomputed
                gc.EdgeAssemblyChanger.scaleParamsRelatedToSymmetry(core, paramsToScaleSubset=["power", "vVol", "mgFlux"])
                self.edge_solver = False
            e.removeEdgeAssemblies(core)
            removed_some = len(core) < n_before
            for pn in self.assigned:
                self.edge_op_since[pn] = True
                if removed_some:
                    self.marks_cleared[pn] = False  # (a removal that removes something sets the marks again, for every parameter)
            if had:
                now = core_digest(core)
                for field, a, b in diff_digest(self.before_edge, now):
                    self.fail("C13.edge", f"step {k}: after add + remove edge assemblies the core differs in {field}: before {str(a)[:160]} | after {str(b)[:160]}", what="restore", field=field if not field.startswith("p.") else "param")
                    break
                self.probe("edge_roundtrip")
            self.edge = None
            return True
        raise RuntimeError(op)

    def check_converted(self, k, st, src, t0, src_objs, edge_ids):
        core = self.core
        if not core.isFullCore:
            self.fail("C13.convert", f"step {k}: core is not full-core after convert", what="symmetry")
        # expected cells: rotate the third-core centres by 0, +120, -120 degrees
        exp = []
        for xy in src.values():
            for kk in (0, 1, 2):
                ang = 2.0 * math.pi * kk / 3.0
                x = xy[0] * math.cos(ang) - xy[1] * math.sin(ang)
                y = xy[0] * math.sin(ang) + xy[1] * math.cos(ang)
                if not any(abs(x - e[0]) < 1e-6 and abs(y - e[1]) < 1e-6 for e in exp):
                    exp.append((x, y))
        got = [tuple(float(v) for v in a.spatialLocator.getGlobalCoordinates()[:2]) for a in core]
        unmatched = [g for g in got if not any(abs(g[0] - e[0]) < 1e-6 and abs(g[1] - e[1]) < 1e-6 for e in exp)]
        missing = [e for e in exp if not any(abs(g[0] - e[0]) < 1e-6 and abs(g[1] - e[1]) < 1e-6 for g in got)]
        if unmatched or missing or len(got) != len(exp):
            self.fail("C13.convert", f"step {k}: full-core cells differ from the rotated third-core centres: {len(got)} assemblies, {len(exp)} expected; unexpected {unmatched[:3]}, missing {missing[:3]}", what="cells")
        names = [a.getName() for a in core]
        if len(set(names)) != len(names):
            self.fail("C13.convert", f"step {k}: duplicate assembly names after convert", what="names")
        seen = {}
        for a in core:
            for x in [a] + list(a.iterChildren(deep=True)):
                if id(x) in seen:
                    self.fail("C13.convert", f"step {k}: {x} is shared between {seen[id(x)]} and {a.getName()}", what="shared")
                seen[id(x)] = a.getName()
        new_objs = set(seen) - src_objs
        # rotated into place: the copy that sits at the source's centre turned by kk x 120 degrees is
        # itself turned by kk x 120 degrees (two sixty-degree steps per kk) relative to its source
        by_id = {id(a): a for a in core}
        for a in core:
            if id(a) in src_objs:
                continue
            g = tuple(float(v) for v in a.spatialLocator.getGlobalCoordinates()[:2])
            for sid, xy in src.items():
                s_asm = by_id.get(sid)
                if s_asm is None:
                    continue
                for kk in (1, 2):
                    ang = 2.0 * math.pi * kk / 3.0
                    x = xy[0] * math.cos(ang) - xy[1] * math.sin(ang)
                    y = xy[0] * math.sin(ang) + xy[1] * math.cos(ang)
                    if abs(x - g[0]) < 1e-6 and abs(y - g[1]) < 1e-6:
                        for bs, bn in zip(s_asm, a):
                            for pn in ("cornerFastFlux", "pointsEdgeFastFluxFr"):
                                vs, vn = bs.p[pn], bn.p[pn]
                                if vs is None or vn is None or len(vs) != 6:
                                    continue
                                # what sat at direction i of the source sits at direction i + 2 kk of the copy
                                import numpy as np

                                exp_v = np.array([np.asarray(vs[(i - 2 * kk) % 6], dtype=float) for i in range(6)])
                                got_v = np.asarray(vn, dtype=float)
                                if got_v.shape != exp_v.shape or bool(np.any(np.abs(got_v - exp_v) > 1e-9 * np.maximum(1.0, np.abs(exp_v)))):
                                    self.fail("C13.convert", f"step {k}: {pn} of a block of the copy of {s_asm.getName()} at {a.getLocation()} (turned by {120 * kk} degrees) is {got_v.tolist()}, the source's values turned by {120 * kk} degrees are {exp_v.tolist()}", what="boundary-data")
                                    break
                                self.probe("copies_boundary_data_checked")
                            dxs, dys = bs.p.get("displacementX"), bs.p.get("displacementY")
                            if dxs is not None and dys is not None and (dxs or dys):
                                ex = float(dxs) * math.cos(ang) - float(dys) * math.sin(ang)
                                ey = float(dxs) * math.sin(ang) + float(dys) * math.cos(ang)
                                gx, gy = float(bn.p.displacementX), float(bn.p.displacementY)
                                if abs(gx - ex) > 1e-12 or abs(gy - ey) > 1e-12:
                                    self.fail("C13.convert", f"step {k}: the displacement of a block of the copy of {s_asm.getName()} at {a.getLocation()} (turned by {120 * kk} degrees) is ({gx}, {gy}); the source's ({float(dxs)}, {float(dys)}) turned by {120 * kk} degrees is ({ex}, {ey})", what="displacement")
                                    break
                                self.probe("copies_displacement_checked")
                            want = (int(bs.getRotationNum()) + 2 * kk) % 6
                            if int(bn.getRotationNum()) != want:
                                self.fail("C13.convert", f"step {k}: the copy of {s_asm.getName()} at {a.getLocation()} (its centre turned by {120 * kk} degrees) has blocks turned by {60 * ((int(bn.getRotationNum()) - int(bs.getRotationNum())) % 6)} degrees relative to the source", what="rotation")
                                break
                        self.probe("copies_rotation_checked")
        # name/location lookups resolve
        for a in core:
            if core.getAssemblyByName(a.getName()) is not a:
                self.fail("C13.convert", f"step {k}: lookup by name fails for {a.getName()}", what="lookup")
            if core.childrenByLocator.get(a.spatialLocator) is not a:
                self.fail("C13.convert", f"step {k}: lookup by location fails for {a.getName()}", what="lookup")
        # the x3 ledger (the centre assembly counts once)
        t1 = totals(core)
        centre = 1 if any(abs(xy[0]) < 1e-6 and abs(xy[1]) < 1e-6 for xy in src.values()) else 0
        n_src = len(src)
        if t1["n"] != 3 * (n_src - centre) + centre:
            self.fail("C13.times3", f"step {k}: {t1['n']} assemblies after convert, expected {3 * (n_src - centre) + centre}", what="count")
        if edge_ids:
            # convert() takes the edge assemblies out first, which sets the marks again
            for pn in self.assigned:
                self.marks_cleared[pn] = False
        # the centre assembly, block by block: three times its third-core value
        for (bn, pn), v0 in sorted(self.centre_before.items()):
            b = core.getBlockByName(bn) if hasattr(core, "getBlockByName") else None
            if b is None or v0 is None:
                continue
            v1 = b.p[pn]
            s0 = float(sum(v0)) if hasattr(v0, "__len__") else float(v0)
            s1 = float(sum(v1)) if hasattr(v1, "__len__") else float(v1)
            if s0 and abs(s1 - 3.0 * s0) > 1e-10 * abs(s1):
                self.fail(
                    "C13.times3",
                    f"step {k}: {pn} of centre block {bn} is {s1} after convert, its third-core value was {s0} (x3 = {3.0 * s0})",
                    what="volume-integrated",
                    edgeOpSinceAssignment=bool(self.marks_cleared.get(pn, False)),
                    firstAssignedAfterChangerBuiltItsList=bool(self.plan["config"].get("reuseChanger") and self.list_built_with is not None and pn not in self.list_built_with),
                )
        if True:
            for key in t0:
                if key == "n":
                    continue
                if t0[key] == 0.0 and t1[key] == 0.0:
                    continue
                if not abs(t1[key] - 3.0 * t0[key]) <= 1e-10 * max(abs(t1[key]), 1e-300):
                    self.fail(
                        "C13.times3",
                        f"step {k}: total {key} after convert is {t1[key]}, third-core value was {t0[key]} (x3 = {3.0 * t0[key]})",
                        what="volume-integrated" if key.startswith("sum_") else key if not key.startswith("m_") else "nuclide-mass",
                        edgeOpSinceAssignment=bool(self.edge_op_since.get(key[4:], False)),
                        firstAssignedAfterChangerBuiltItsList=bool(
                            self.plan["config"].get("reuseChanger") and self.list_built_with is not None and key[4:] not in self.list_built_with
                        ),
                    )
        _ = new_objs


def execute(plan):
    cfg = copy.deepcopy(plan["config"])
    bp = cfg["blueprint"]
    rings = int(bp["rings"])
    log, scratch, clock, simos, d = enginea.new_run(plan)
    try:
        cells = c14._first_third_cells(rings)
        holes = {tuple(h) for h in bp.get("holes", [])}
        used = [c for c in cells if c not in holes]
        if not used:
            used = [(0, 0)]
        bp["cells"] = [[i, j, "IC" if inputs.hex_ring(i, j) == 1 else "OC"] for (i, j) in used]
        cs, o, _ = enginea.build_life(cfg, scratch, 0, d)
        run = Runner(plan, o, cs, log)
        for k, st in enumerate(plan["steps"]):
            did = run.apply(k, st)
            log.add("step", k, st["op"], bool(did))
            if did:
                run.applied.append(st["op"])
        return kernel.result(
            kernel.PASS,
            digest=log.digest(),
            nevents=len(log),
            stats={"steps_applied": len(run.applied)},
            probes=run.probes,
            known=run.known,
            sim={"steps": len(plan["steps"])},
            sig=kernel.digest([run.applied, sorted(used)])[:16],
            nontrivial=any(x in run.applied for x in ("convert", "addEdge")),
        )
    finally:
        enginea.cleanup(scratch)
