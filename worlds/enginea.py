"""World A engine: a whole ARMI run (operator, interface stack, reactor, HDF5 database on a
filesystem, wall clock, process lifetime) executed under the simulator.

A run has up to three segments in one scratch working directory: first life, restart, reader.
The plan (plain data) decides the configuration, every actor behaviour, every fault, delay and
crash/restart point.  This module only *executes and records*; oracles live with each property.
"""
import collections
import hashlib
import os
import shutil
import tempfile

from sim import armiboot
from sim.kernel import EventLog, Rejected

INPUTS = {
    "smallest": (
        os.path.join(armiboot.REPO_ROOT, "armi/tests/smallestTestReactor"),
        "armiRunSmallest.yaml",
        ["armiRunSmallest.yaml", "refSmallestReactor.yaml", "refOneBlockReactor.yaml"],
    ),
}

BASE_OVERRIDES = {
    "detailAssemLocationsBOL": [],
    "startCycle": 0,
    "startNode": 0,
    "fuelHandlerName": "",
    "shuffleLogic": "",
    "db": True,
    "verbosity": "error",
    "branchVerbosity": "error",
    "moduleVerbosity": {},
    "smallRun": False,
    "power": 1000000.0,
}

ABORT_KINDS = {
    "RuntimeError": RuntimeError,
    "KeyError": KeyError,
    "OSError": OSError,
    "MemoryError": MemoryError,
    "ValueError": ValueError,
    "KeyboardInterrupt": KeyboardInterrupt,
    "SystemExit": SystemExit,
}


class InjectedAbort(Exception):
    pass


def scratch_dir():
    base = os.environ.get("VERIF_SCRATCH") or ("/dev/shm" if os.path.isdir("/dev/shm") else tempfile.gettempdir())
    return tempfile.mkdtemp(prefix="armisim-", dir=base)


def h5_group_hash(g):
    """Content hash of an HDF5 group: names, dtypes, shapes, bytes and attributes, recursively."""
    import h5py
    import numpy as np

    h = hashlib.sha256()

    def attrs(obj):
        for k in sorted(obj.attrs.keys()):
            v = obj.attrs[k]
            h.update(b"@" + k.encode())
            a = np.asarray(v)
            h.update(str(a.dtype.kind).encode() + str(a.shape).encode())
            h.update(a.astype("S").tobytes() if a.dtype.kind in "OU" else a.tobytes())

    def walk(grp, prefix):
        attrs(grp)
        for name in sorted(grp.keys()):
            obj = grp[name]
            path = prefix + "/" + name
            h.update(path.encode())
            if isinstance(obj, h5py.Group):
                walk(obj, path)
            else:
                a = obj[()]
                a = np.asarray(a)
                h.update(str(a.dtype.kind).encode() + str(a.shape).encode())
                if a.dtype.kind == "O":
                    h.update(repr(a.tolist()).encode())
                else:
                    h.update(a.tobytes())
                attrs(obj)

    walk(g, "")
    return h.hexdigest()


class Director:
    """Owns every actor behaviour.  Records the hook trace and the database write log."""

    def __init__(self, plan, log):
        self.plan = plan
        self.log = log
        self.life = 0
        self.depth = 0
        self.trace = []  # per life: list of recorded events
        self.traces = {}
        self.fired = collections.Counter()
        self.probes = collections.Counter()
        self.cval = collections.defaultdict(float)
        self.cdrift = collections.defaultdict(float)
        self.writes = []  # acknowledged database writes (all lives)
        self.o = None
        self.aborted = None
        self.in_error = False
        self.ops = {}  # op name -> callable(director, step, actor)
        self.on_write_cb = None
        self._index()

    def _index(self):
        self.by_key = collections.defaultdict(list)
        for i, st in enumerate(self.plan.get("steps", [])):
            if "actor" not in st:
                continue  # steps of worlds that do not run an operator
            k = (st.get("life", 0), st["actor"], st["hook"], st.get("cycle"), st.get("node"), st.get("iter"))
            self.by_key[k].append((i, st))
        self.conv = {}
        self.cvec = {}
        self.vector_couplers = {a["name"]: a["vectorCoupler"] for a in self.plan["config"].get("actors", []) if a.get("vectorCoupler")}
        for a in self.plan["config"]["actors"]:
            sc = a.get("conv") or {}
            self.conv[a["name"]] = {tuple(int(x) for x in k.split(",")): v for k, v in sc.items()}

    def begin_life(self, life, o):
        self.life = life
        self.o = o
        self.depth = 0
        self.trace = []
        self.traces[life] = self.trace
        self.aborted = None
        self.in_error = False

    # -- recording
    def _state(self, o):
        r = o.r
        core = r.core
        return (
            int(r.p.cycle),
            int(r.p.timeNode),
            int(core.p.coupledIteration or 0),
            float(r.p.stepLength) if r.p.stepLength is not None else None,
            float(core.p.power) if core.p.power is not None else None,
        )

    def _record(self, name, hook, args, o):
        cyc, node, it, step, power = self._state(o)
        ev = {
            "depth": self.depth,
            "hook": hook,
            "iface": name,
            "args": [int(a) if a is not None else None for a in args],
            "cycle": cyc,
            "node": node,
            "iter": it,
            "step": step,
            "power": power,
        }
        self.trace.append(ev)
        self.log.add("hook", self.life, self.depth, hook, name, ev["args"], cyc, node, it)
        return ev

    def on_builtin(self, itf, hook, args, phase):
        if phase == "enter":
            self._record(itf.name, hook, args, itf.o)
            self.depth += 1
        else:
            self.depth -= 1

    def _key(self, actor, hook, args):
        r = actor.o.r
        if hook == "BOC" or hook == "EOC":
            return (args[0], None, None)
        if hook == "EveryNode":
            return (args[0], args[1], None)
        if hook == "Coupled":
            return (int(r.p.cycle), int(r.p.timeNode), args[0])
        return (None, None, None)

    def on_hook(self, actor, hook, args):
        self._record(actor.name, hook, args, actor.o)
        cyc, node, it = self._key(actor, hook, args)
        if hook == "Coupled":
            script = self.conv.get(actor.name, {}).get((cyc, node))
            if script is None:
                ok = True
            else:
                ok = script[it] if it < len(script) else (script[-1] if script else True)
            self.cval[actor.name] += 0.0 if ok else 1.0
            if ok:
                # "converged" still means a small movement: 0.4 in every row, below the tolerance (0.5)
                # row by row - which is how the convergence of a table is documented (largest row change)
                self.cdrift[actor.name] += 0.4
        elif hook in ("EveryNode", "BOC"):
            # the coupled quantity also moves between time nodes (new node, new physics state):
            # convergence must be judged against the value at the start of *this* iteration
            self.cval[actor.name] += 100.0
        ret = None
        for i, st in self.by_key.get((self.life, actor.name, hook, cyc, node, it), ()):
            fn = self.ops.get(st["op"])
            if fn is None:
                raise RuntimeError(f"unknown op {st['op']}")
            self.fired[st["op"]] += 1
            self.log.add("op", i, st["op"])
            out = fn(self, st, actor)
            if out is not None:
                ret = out
        return ret

    def coupling_value(self, actor):
        if actor.name in self.vector_couplers:
            # an interface that hands out its own list and keeps updating it in place
            if self.vector_couplers[actor.name] == "nested":
                # a table (list of rows); the rows are the interface's own and are updated in place
                tab = self.cvec.setdefault(actor.name, [[0.0, 1.0], [2.0, 3.0]])
                tab[0][0] = float(self.cval[actor.name]) + float(self.cdrift[actor.name])
                tab[1][0] = 2.0 + float(self.cdrift[actor.name])
                return tab
            vec = self.cvec.setdefault(actor.name, [0.0, 1.0])
            vec[0] = float(self.cval[actor.name])
            return vec
        return float(self.cval[actor.name])

    # -- database acknowledgements (observer of Database.writeToDB returning)
    def on_db_write(self, db, reactor, label):
        ent = {
            "life": self.life,
            "cycle": int(reactor.p.cycle),
            "node": int(reactor.p.timeNode),
            "label": label or "",
            "seq": len(self.writes),
        }
        self.writes.append(ent)
        self.log.add("dbwrite", self.life, ent["cycle"], ent["node"], ent["label"])
        if self.on_write_cb:
            self.on_write_cb(self, db, reactor, ent)


# ---- standard ops -------------------------------------------------------------------------------
def op_halt(d, st, actor):
    return st.get("value", True)


def op_abort(d, st, actor):
    d.aborted = dict(st)
    d.aborted["at_state"] = d._state(actor.o)[:2]
    cb = d.ops.get("_before_abort")
    if cb:
        cb(d, st, actor)
    kind = ABORT_KINDS[st.get("kind", "RuntimeError")]
    raise kind(f"injected abort at {st['hook']}")


def op_clockjump(d, st, actor):
    armiboot.CLOCK.jump(float(st["dt"]))


def op_work(d, st, actor):
    armiboot.CLOCK.advance(float(st["dt"]))


STD_OPS = {"halt": op_halt, "abort": op_abort, "clockjump": op_clockjump, "work": op_work}


# ---- building and running one life ----------------------------------------------------------------
def _install_db_observer(director):
    import armi.bookkeeping.db.database as database

    if getattr(database.Database, "_verif_wrapped", False):
        orig = database.Database._verif_orig
    else:
        orig = database.Database.writeToDB

    def writeToDB(self, reactor, statePointName=None):
        out = orig(self, reactor, statePointName)
        director.on_db_write(self, reactor, statePointName)
        return out

    database.Database._verif_orig = orig
    database.Database._verif_wrapped = True
    database.Database.writeToDB = writeToDB


def prepare_inputs(cfg, scratch):
    """Copy / generate the input files of this run into the scratch directory.  Returns the
    settings file name and the settings the input set needs."""
    from sim import inputs

    kind = cfg.get("reactor", "smallest")
    src, fname, files = INPUTS["smallest"]
    for f in files:
        if not os.path.exists(os.path.join(scratch, f)):
            shutil.copy(os.path.join(src, f), os.path.join(scratch, f))
    extra = {}
    if kind == "gen":
        with open(os.path.join(scratch, "gen.yaml"), "w") as f:
            f.write(inputs.blueprint_text(cfg.get("blueprint", {})))
        extra["loadingFile"] = "gen.yaml"
        if cfg.get("fuelHandler"):
            with open(os.path.join(scratch, "planShuffle.py"), "w") as f:
                f.write(inputs.SHUFFLE_LOGIC)
            extra["shuffleLogic"] = "planShuffle.py"
            extra["fuelHandlerName"] = "PlanFuelHandler"
    return fname, extra


def build_life(cfg, scratch, life, director, extra_settings=None):
    """Build settings, operator, reactor and the interface stack for one life."""
    from armi import getPluginManagerOrFail, operators, settings
    from armi.reactor import reactors

    fname, input_settings = prepare_inputs(cfg, scratch)
    os.chdir(scratch)
    new = dict(BASE_OVERRIDES)
    new.update(input_settings)
    new.update(cfg.get("settings", {}))
    if extra_settings:
        new.update(extra_settings)
    armiboot.SCENARIO["actors"] = cfg["actors"]
    armiboot.SCENARIO["helpers"] = cfg.get("helpers", [])
    armiboot.SCENARIO["director"] = director
    armiboot.SCENARIO["_classes"] = {}
    try:
        cs = settings.Settings(fname)
        cs = cs.modified(newSettings=new)
    except Exception as e:  # refused by the settings schema
        raise Rejected(f"settings refused: {type(e).__name__}: {e}")
    pm = getPluginManagerOrFail()
    infos = []
    for lst in pm.hook.exposeInterfaces(cs=cs):
        for info in lst:
            infos.append((float(info.order), info.interfaceCls.name, dict(info.kwargs), info.interfaceCls.function, [k.__name__ for k in info.interfaceCls.__mro__]))
    try:
        o = operators.factory(cs)
        # the operator's own validation of the cycle history
        o.burnSteps, o.stepLengths, o.cycleLengths, o.powerFractions, o.availabilityFactors
    except ValueError as e:
        raise Rejected(f"operator refused the cycle history: {e}")
    r = reactors.loadFromCs(cs)
    o.initializeInterfaces(r)
    armiboot.wrap_builtins(o, director)
    _install_db_observer(director)
    director.begin_life(life, o)
    return cs, o, infos


def run_life(o, director):
    """with o: o.operate() -- returns None or the exception that ended the life."""
    try:
        with o:
            o.operate()
    except BaseException as e:  # noqa: BLE001 - aborts include SystemExit / KeyboardInterrupt
        if director.aborted is not None:
            return e
        raise
    return None


def stack_of(o):
    out = []
    for i in o.interfaces:
        out.append(
            {
                "name": i.name,
                "enabled": bool(i.enabled()),
                "bolForce": bool(i.bolForce()),
                "reverseAtEOL": bool(i.reverseAtEOL),
                "coupler": i.coupler is not None,
                "function": i.function,
            }
        )
    return out


def new_run(plan):
    """Common prologue of a world-A run in the child: scratch dir, seams, event log, director."""
    log = EventLog()
    scratch = scratch_dir()
    clock, simos = armiboot.install_seams(
        scratch, plan["seed"], latencies=list(plan["config"].get("fs_latencies", [])), log=log
    )
    director = Director(plan, log)
    director.ops.update(STD_OPS)
    return log, scratch, clock, simos, director


def cleanup(scratch):
    try:
        os.chdir("/")
    except OSError:
        pass
    shutil.rmtree(scratch, ignore_errors=True)
