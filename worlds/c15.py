"""C15 — the operator is the scheduler under test.

Every interact* call of every interface in the stack of a real Operator is recorded; the trace
must equal, event for event, the trace of the independent reference scheduler (models/schedule.py)
for the same explicit configuration.  Node arithmetic is checked against independent counting.
"""
import copy
import json

from models import schedule
from sim import kernel
from sim.kernel import OracleFailure
from worlds import enginea

PROPERTY = "C15"
WORLD = "A"
RULE = (
    "one run = one seed-derived configuration (cycle history simple/detailed, 1-4 sim actors at "
    "seed-chosen stack positions with enabled/bolForce/reverseAtEOL flags, deferral, tight coupling "
    "with scripted convergence, truthy hook returns, optional restart at a seed-chosen node) executed "
    "by the real Operator; distinct = distinct abstract schedule signature (hash of the sequence of "
    "(depth, hook, stack position) of all recorded calls plus the restart point); non-trivial = at "
    "least one sim actor hook was called"
)
REAL = [
    "Operator main/cycle/node loops",
    "Interface base",
    "MainInterface",
    "DatabaseInterface+Database+h5py",
    "HistoryTrackerInterface",
    "fissionProducts/xsGroups/memoryProfiler/snapshot interfaces",
    "Settings",
    "blueprints->reactor (one-assembly test reactor)",
    "plugin manager + exposeInterfaces",
    "getStepLengths/getCycleLengths/getBurnSteps/getPowerFractions/node arithmetic",
]
STUB = ["physics (sim actors)", "wall clock (virtual)", "mv/cp (SimOS)", "git describe", "lscpu banner", "MPI (absent)"]
ASSUMPTIONS = [
    "single MPI rank",
    "the interface stack contains the framework's built-in interfaces plus sim actors; external physics codes are not run",
    "restart points are nodes present in the first life's database",
]

ORDERS = [0.5, 1.5, 2.5, 4.5, 6.5, 10.5, 11.0, 11.5, 12.0, 12.5]


def _gen_history(rng, allow_zero=True):
    cs = {}
    n = rng.choice([1, 1, 2, 2, 3, 4])
    if rng.random() < 0.55:
        cs["nCycles"] = n
        bs = rng.choice([1, 2, 2, 3, 4])
        if n == 1 and allow_zero and rng.random() < 0.2:
            bs = 0
        cs["burnSteps"] = bs
        if rng.random() < 0.5:
            cs["cycleLength"] = rng.choice([10.0, 100.0, 365.25, 2000.0])
        else:
            vals = [rng.choice([10.0, 50.0, 300.0]) for _ in range(n)]
            cs["cycleLengths"] = _maybe_repeat(rng, vals)
        if rng.random() < 0.5:
            cs["availabilityFactor"] = rng.choice([1.0, 0.9, 0.5])
        else:
            vals = [rng.choice([1.0, 0.8, 0.25]) for _ in range(n)]
            cs["availabilityFactors"] = _maybe_repeat(rng, vals)
        if rng.random() < 0.5:
            vals = [rng.choice([1.0, 0.5, 0.0, 0.75]) for _ in range(n)]
            cs["powerFractions"] = _maybe_repeat(rng, vals)
    else:
        cs["nCycles"] = n
        cyc = []
        for i in range(n):
            c = {}
            kind = rng.choice(["step", "cum", "bs"])
            if kind == "step":
                k = rng.choice([0, 1, 2, 3, 4]) if allow_zero else rng.choice([1, 2, 3, 4])
                vals = [rng.choice([1.0, 5.0, 30.0, 100.5]) for _ in range(k)]
                c["step days"] = _maybe_repeat(rng, vals)
                nsteps = k
            elif kind == "cum":
                k = rng.choice([1, 2, 3])
                t = 0.0
                out = []
                for _ in range(k):
                    t += rng.choice([1.0, 10.0, 45.5])
                    out.append(t)
                c["cumulative days"] = out
                nsteps = k
            else:
                nsteps = rng.choice([1, 2, 3] + ([0] if allow_zero else []))
                c["burn steps"] = nsteps
                c["cycle length"] = rng.choice([10.0, 100.0, 500.0])
            if rng.random() < 0.5:
                c["availability factor"] = rng.choice([1.0, 0.9, 0.5] + ([0.0, 0.0] if kind == "bs" else []))  # (0: an outage cycle)
            if rng.random() < 0.5 and nsteps:
                c["power fractions"] = _maybe_repeat(rng, [rng.choice([1.0, 0.5, 0.0]) for _ in range(nsteps)])
            if rng.random() < 0.3:
                c["name"] = f"cyc{i}"
            cyc.append(c)
        cs["cycles"] = cyc
    return cs


def _maybe_repeat(rng, vals):
    """Use the documented 'NR' repeat syntax where consecutive values are equal."""
    out = []
    i = 0
    while i < len(vals):
        j = i
        while j + 1 < len(vals) and vals[j + 1] == vals[i]:
            j += 1
        out.append(vals[i])
        if j > i and rng.random() < 0.7:
            out.append(f"{j - i}R")
        else:
            out += [vals[i]] * (j - i)
        i = j + 1
    return out


def gen_plan(rng, index, tier):
    hist_cs = _gen_history(rng)
    hist = schedule.expand_history(hist_cs)
    n = hist["nCycles"]
    nact = rng.choice([1, 2, 2, 3, 3, 4])
    actors = []
    for k in range(nact):
        a = {
            "name": f"sim{k}",
            "order": rng.choice(ORDERS),
            "function": f"simf{k}",
            "kwargs": {
                "enabled": rng.random() < 0.85,
                "bolForce": rng.random() < 0.25,
                "reverseAtEOL": rng.random() < 0.3,
            },
        }
        actors.append(a)
    if nact >= 2 and rng.random() < 0.2:
        # two actors with the same function, one class deriving from the other: only the more
        # derived one may end up in the stack
        k = rng.randrange(1, nact)
        actors[k]["extends"] = actors[0]["name"]
        actors[k]["function"] = actors[0]["function"]
    helpers = []
    if rng.random() < 0.3:
        # declared dependencies: helper interfaces no plugin exposes; the stack must get each exactly
        # once (switched off, forced at beginning-of-life) whatever the state of the one that needs it
        nh = rng.choice([1, 1, 2])
        helpers = [{"name": f"help{k}", "function": f"helpf{k}", "kwargs": {}} for k in range(nh)]
        if nh == 2 and rng.random() < 0.5:
            helpers[0]["needs"] = ["help1"]  # a helper that needs a helper
        for a in rng.sample(actors, rng.randint(1, len(actors))):
            a["needs"] = sorted(rng.sample([h["name"] for h in helpers], rng.randint(1, nh)))
            if nact >= 2 and rng.random() < 0.25:
                a["needs"].append(rng.choice([b["name"] for b in actors if b is not a]))  # present already
    st = dict(hist_cs)
    if "cycles" in st:
        # detailed input: the simple keys stay at their defaults
        st.update({"burnSteps": 4, "cycleLength": 365.242199, "availabilityFactor": 1.0})
    st["db"] = rng.random() < 0.9
    if rng.random() < 0.35:
        names = [a["name"] for a in actors] + ["history", "snapshot"] + [h["name"] for h in helpers]
        st["deferredInterfaceNames"] = sorted(rng.sample(names, rng.randint(1, min(3, len(names)))))
        st["deferredInterfacesCycle"] = rng.randint(0, n)
    coupling = rng.random() < 0.4
    if coupling:
        st["tightCoupling"] = True
        st["tightCouplingMaxNumIters"] = rng.choice([0, 1, 2, 3, 4, 4])  # (0: coupling requested, no iteration allowed)
        if rng.random() < 0.4:
            st["cyclesSkipTightCouplingInteraction"] = sorted(rng.sample(range(n), rng.randint(1, n)))
        tcs = {}
        for a in actors:
            if rng.random() < 0.7:
                tcs[a["function"]] = {"parameter": "power", "convergence": 0.5}
                conv = {}
                for c in range(n):
                    for nd in range(hist["burnSteps"][c] + 1):
                        if rng.random() < 0.7:
                            k = rng.choice([0, 1, 2, 9])
                            conv[f"{c},{nd}"] = [False] * k + [True] if k < 9 else [False]
                a["conv"] = conv
                if rng.random() < 0.3:
                    # the coupled quantity is a list, or a table of rows, that the interface updates in place
                    a["vectorCoupler"] = rng.choice([True, "nested"])
        st["tightCouplingSettings"] = tcs
    steps = []
    # truthy returns: the documented halt request at BOC, and truthy values from other hooks
    # (which the statement does not allow to change who gets called)
    if rng.random() < 0.35:
        a = rng.choice(actors)
        steps.append({"life": 0, "actor": a["name"], "hook": "BOC", "cycle": rng.randrange(n), "op": "halt"})
    if rng.random() < 0.25:
        a = rng.choice(actors)
        hook = rng.choice(["BOL", "EveryNode", "EOC", "EOL", "Coupled"])
        s = {"life": 0, "actor": a["name"], "hook": hook, "op": "halt", "value": rng.choice([True, 1, "x"])}
        c = rng.randrange(n)
        if hook in ("EveryNode", "Coupled"):
            s["cycle"] = c
            s["node"] = rng.randrange(hist["burnSteps"][c] + 1)
            if hook == "Coupled":
                s["iter"] = 0
        elif hook == "EOC":
            s["cycle"] = c
        steps.append(s)
    if rng.random() < 0.3:
        a = rng.choice(actors)
        steps.append({"life": 0, "actor": a["name"], "hook": "EveryNode", "cycle": 0, "node": 0, "op": "clockjump", "dt": rng.choice([-3600.0, 86400.0, -1e7])})
    cfg = {"reactor": "smallest", "settings": st, "actors": actors, "fs_latencies": [rng.choice([0, 0, 0.05, 1.0]) for _ in range(rng.randint(0, 6))]}
    if helpers:
        cfg["helpers"] = helpers
    # restart at a node the first life wrote
    if st["db"] and rng.random() < 0.3 and not any(s["op"] == "halt" and s["hook"] == "BOC" for s in steps):
        nodes = schedule.node_numbering(hist)[1:]
        if nodes:
            c, nd = rng.choice(nodes)
            # the node that ends a cycle is a restart point like any other (there the loop over the
            # burn steps does not run at all); preferred where the cycle's power fraction is not one
            ends = [(c_, n_) for (c_, n_) in nodes if n_ == hist["burnSteps"][c_] and n_ > 0]
            off = [(c_, n_) for (c_, n_) in ends if hist["pfs"][c_][n_ - 1] != 1.0]
            if (off or ends) and rng.random() < 0.4:
                c, nd = rng.choice(off or ends)
            cfg["restart"] = {"startCycle": c, "startNode": nd}
    return {"config": cfg, "steps": steps}


def simplify(plan):
    """Configuration simplifications tried by the minimiser (each must stay a valid plan)."""
    cfg = plan["config"]
    if cfg.get("restart"):
        p = copy.deepcopy(plan)
        p["config"].pop("restart")
        yield p
    if cfg.get("fs_latencies"):
        p = copy.deepcopy(plan)
        p["config"]["fs_latencies"] = []
        yield p
    if cfg.get("helpers"):
        p = copy.deepcopy(plan)
        p["config"].pop("helpers")
        for a in p["config"]["actors"]:
            a.pop("needs", None)
        yield p
    if len(cfg["actors"]) > 1:
        for k in range(len(cfg["actors"])):
            p = copy.deepcopy(plan)
            gone = p["config"]["actors"].pop(k)
            p["steps"] = [s for s in p["steps"] if s["actor"] != gone["name"]]
            tcs = p["config"]["settings"].get("tightCouplingSettings")
            if tcs and gone["function"] in tcs:
                tcs.pop(gone["function"])
            yield p
    for key in ("deferredInterfaceNames", "cyclesSkipTightCouplingInteraction"):
        if cfg["settings"].get(key):
            p = copy.deepcopy(plan)
            p["config"]["settings"].pop(key)
            yield p
    if cfg["settings"].get("tightCoupling"):
        p = copy.deepcopy(plan)
        for k in ("tightCoupling", "tightCouplingMaxNumIters", "tightCouplingSettings", "cyclesSkipTightCouplingInteraction"):
            p["config"]["settings"].pop(k, None)
        for a in p["config"]["actors"]:
            a.pop("conv", None)
        p["steps"] = [s for s in p["steps"] if s["hook"] != "Coupled"]
        yield p
    for a_i, a in enumerate(cfg["actors"]):
        for flag, simple in (("enabled", True), ("bolForce", False), ("reverseAtEOL", False)):
            if a["kwargs"][flag] != simple:
                p = copy.deepcopy(plan)
                p["config"]["actors"][a_i]["kwargs"][flag] = simple
                yield p
    st = cfg["settings"]
    if "cycles" not in st and st.get("nCycles", 1) > 1 and not any(k in st for k in ("cycleLengths", "availabilityFactors", "powerFractions")):
        p = copy.deepcopy(plan)
        p["config"]["settings"]["nCycles"] = st["nCycles"] - 1
        yield p


def _model_cfg(cfg, stack, life, start, prev, halts):
    st = cfg["settings"]
    hist = schedule.expand_history(st)
    return {
        "stack": stack,
        "deferred": list(st.get("deferredInterfaceNames", [])),
        "deferredCycle": int(st.get("deferredInterfacesCycle", 0)),
        "hist": hist,
        "power": float(enginea.BASE_OVERRIDES["power"]),
        "coupling": {
            "active": bool(st.get("tightCoupling", False)),
            "maxIters": int(st.get("tightCouplingMaxNumIters", 4)),
            "skip": [int(x) for x in st.get("cyclesSkipTightCouplingInteraction", [])],
        },
        "halts": halts,
        "conv": {
            a["name"]: {tuple(int(x) for x in k.split(",")): v for k, v in (a.get("conv") or {}).items()}
            for a in cfg["actors"]
        },
        "start": start,
        "restart": life > 0,
        "prev": prev,
    }


def _close(a, b):
    if a is None or b is None:
        return True
    return abs(a - b) <= 1e-9 * max(1.0, abs(a), abs(b))


def compare_traces(real, exp, life):
    real = [e for e in real if e["hook"] != "Init"]
    for i in range(max(len(real), len(exp))):
        r = real[i] if i < len(real) else None
        e = exp[i] if i < len(exp) else None
        bad = None
        if r is None:
            bad = "missing call"
        elif e is None:
            bad = "extra call"
        elif (r["depth"], r["hook"], r["iface"], r["args"]) != (e["depth"], e["hook"], e["iface"], e["args"]):
            bad = "wrong call"
        elif (r["cycle"], r["node"]) != (e["cycle"], e["node"]):
            bad = "time state"
        elif e["hook"] == "Coupled" and r["iter"] != e["iter"]:
            bad = "coupled iteration"
        elif e["hook"] == "EveryNode" and not _close(r["step"], e["step"]):
            bad = "step length"
        elif e["hook"] == "EveryNode" and not _close(r["power"], e["power"]):
            bad = "power"
        if bad:
            def fmt(x):
                return None if x is None else f"{x['hook']}{x['args']}@{x['iface']} d{x['depth']} state=({x['cycle']},{x['node']},it{x['iter']}) step={x['step']} power={x['power']}"

            kind = (e or r)["hook"]
            raise OracleFailure(
                "C15.trace",
                f"life {life} event #{i}: {bad}: real={fmt(r)} expected={fmt(e)}",
                {"kind": bad, "hook": kind, "life": life},
            )


def check_arithmetic(cs, hist):
    """The (cycle,node) <-> cumulative conversions against independent counting."""
    from armi import utils

    nodes = schedule.node_numbering(hist)
    for k, (c, n) in enumerate(nodes):
        got = utils.getCumulativeNodeNum(c, n, cs)
        if got != k:
            raise OracleFailure("C15.arith", f"getCumulativeNodeNum({c},{n})={got}, visiting order says {k}", {"fn": "getCumulativeNodeNum"})
        back = utils.getCycleNodeFromCumulativeNode(k, cs)
        if tuple(back) != (c, n):
            raise OracleFailure("C15.arith", f"getCycleNodeFromCumulativeNode({k})={back}, expected {(c, n)}", {"fn": "getCycleNodeFromCumulativeNode"})
        if k > 0:
            prev = utils.getPreviousTimeNode(c, n, cs)
            if tuple(prev) != nodes[k - 1]:
                raise OracleFailure("C15.arith", f"getPreviousTimeNode({c},{n})={prev}, expected {nodes[k - 1]}", {"fn": "getPreviousTimeNode"})
    # cumulative *steps* (1-indexed, the node at the start of the step)
    k = 0
    for c, bs in enumerate(hist["burnSteps"]):
        for n in range(bs):
            k += 1
            got = utils.getCycleNodeFromCumulativeStep(k, cs)
            if tuple(got) != (c, n):
                raise OracleFailure("C15.arith", f"getCycleNodeFromCumulativeStep({k})={got}, expected {(c, n)}", {"fn": "getCycleNodeFromCumulativeStep"})
    # history expansion against independent arithmetic; sum(steps) = availability x cycle length
    sl = utils.getStepLengths(cs)
    cl = utils.getCycleLengths(cs)
    bsl = utils.getBurnSteps(cs)
    pf = utils.getPowerFractions(cs)
    af = utils.getAvailabilityFactors(cs)
    if hist["burnSteps"] == [0] and sl == [[]]:
        pass
    for c in range(hist["nCycles"]):
        exp_steps = hist["steps"][c] if c < len(hist["steps"]) else []
        got_steps = sl[c] if c < len(sl) else None
        if got_steps is None or len(got_steps) != len(exp_steps) or any(not _close(a, b) for a, b in zip(got_steps, exp_steps)):
            raise OracleFailure("C15.history", f"cycle {c}: step lengths {got_steps} expected {exp_steps}", {"fn": "getStepLengths"})
        if bsl[c] != len(exp_steps):
            raise OracleFailure("C15.history", f"cycle {c}: burn steps {bsl[c]} expected {len(exp_steps)}", {"fn": "getBurnSteps"})
        if not _close(cl[c], hist["lengths"][c]):
            raise OracleFailure("C15.history", f"cycle {c}: cycle length {cl[c]} expected {hist['lengths'][c]}", {"fn": "getCycleLengths"})
        if not _close(float(af[c]), hist["avail"][c]):
            raise OracleFailure("C15.history", f"cycle {c}: availability {af[c]} expected {hist['avail'][c]}", {"fn": "getAvailabilityFactors"})
        if len(pf[c]) != len(hist["pfs"][c]) or any(not _close(float(a), b) for a, b in zip(pf[c], hist["pfs"][c])):
            raise OracleFailure("C15.history", f"cycle {c}: power fractions {pf[c]} expected {hist['pfs'][c]}", {"fn": "getPowerFractions"})
        if exp_steps and not _close(sum(got_steps), float(af[c]) * cl[c]):
            raise OracleFailure("C15.history", f"cycle {c}: sum(step lengths)={sum(got_steps)} != availability x cycle length={float(af[c]) * cl[c]}", {"fn": "sum"})


def expected_helpers(cfg, exposed):
    """Names of the interfaces the declared dependencies add: every dependency of every interface of
    the stack (and of every added one) that the stack has neither by name nor by function - whatever
    the enabled / forced / deferred state of the interface that declares it."""
    specs = {x["name"]: x for x in list(cfg.get("helpers", [])) + list(cfg["actors"])}
    have = [(s["name"], s["function"]) for s in exposed]
    added = []
    grew = True
    while grew:
        grew = False
        for nm, _f in list(have):
            sp = specs.get(nm, {})
            while "needs" not in sp and sp.get("extends") in specs:
                sp = specs[sp["extends"]]  # a derived interface class inherits the declaration
            for need in sp.get("needs", []):
                d = specs.get(need)
                if d is None:
                    continue
                if any(n == d["name"] or f == d["function"] for n, f in have):
                    continue
                have.append((d["name"], d["function"]))
                added.append(d["name"])
                grew = True
    return added


def check_exclusion(o, director, cfg, stack, probe_names):
    """Direct calls of interactAll*(excludedInterfaceNames=...) after the run."""
    deferred = list(cfg["settings"].get("deferredInterfaceNames", []))
    for hook, call in (
        ("EveryNode", lambda ex: o.interactAllEveryNode(0, 0, excludedInterfaceNames=ex)),
        ("EOC", lambda ex: o.interactAllEOC(0, excludedInterfaceNames=ex)),
        ("EOL", lambda ex: o.interactAllEOL(excludedInterfaceNames=ex)),
        ("BOL", lambda ex: o.interactAllBOL(excludedInterfaceNames=ex)),
    ):
        names = list(probe_names)
        if hook in ("EOL", "BOL"):
            names = names + ["main"]  # main's BOL/EOL open the database / clean files: not re-run after the run
        before = len(director.trace)
        call(tuple(names))
        got = [e["iface"] for e in director.trace[before:] if e["hook"] == hook and e["depth"] == 0]
        if hook == "BOL":
            exp = [s["name"] for s in stack if (s["enabled"] or s["bolForce"]) and s["name"] not in names and s["name"] not in deferred]
        else:
            exp = [s["name"] for s in stack if s["enabled"] and s["name"] not in names]
        if hook == "EOL":
            exp = [n for n in exp if not next(s for s in stack if s["name"] == n)["reverseAtEOL"]] + list(
                reversed([n for n in exp if next(s for s in stack if s["name"] == n)["reverseAtEOL"]])
            )
        if got != exp:
            raise OracleFailure("C15.exclusion", f"interactAll{hook}(excluded={names}) called {got}, expected {exp}", {"hook": hook})


def execute(plan):
    cfg = plan["config"]
    log, scratch, clock, simos, director = enginea.new_run(plan)
    stats = {}
    probes = {}
    try:
        halts = set()
        for s in plan["steps"]:
            if s["op"] == "halt":
                halts.add((s["actor"], s["hook"], s.get("cycle"), s.get("node"), s.get("iter")))
        # ---------------- first life
        cs, o, infos = enginea.build_life(cfg, scratch, 0, director)
        stack = enginea.stack_of(o)
        exp_stack = schedule.stack_order([(i[0], i[1], i[3], i[4]) for i in infos])
        exp_helpers = expected_helpers(cfg, stack[: len(exp_stack)])
        if exp_helpers:
            probes["dependency_attached"] = len(exp_helpers)
        got_names = [s["name"] for s in stack]
        if got_names[: len(exp_stack)] != exp_stack or sorted(got_names[len(exp_stack):]) != sorted(exp_helpers):
            raise OracleFailure(
                "C15.stack",
                f"stack {got_names} expected (sorted by ORDER) {exp_stack} followed by the declared dependencies {sorted(exp_helpers)}",
                {"helpers": bool(cfg.get("helpers"))},
            )
        if len(exp_stack) < len(infos):
            probes["function_replacement_rule"] = 1
        for s in stack:
            if s["name"] in exp_helpers:
                kw = {"enabled": False, "bolForce": True}  # a dependency: switched off, forced at beginning-of-life
            else:
                kw = next(i[2] for i in infos if i[1] == s["name"])
            want = (kw.get("enabled", True), kw.get("bolForce", False), kw.get("reverseAtEOL", False))
            if (s["enabled"], s["bolForce"], s["reverseAtEOL"]) != want:
                raise OracleFailure("C15.stack", f"{s['name']} flags {(s['enabled'], s['bolForce'], s['reverseAtEOL'])} expected {want}", {})
        mcfg = _model_cfg(cfg, stack, 0, (0, 0), None, {h for h in halts})
        hist = mcfg["hist"]
        check_arithmetic(cs, hist)
        err = enginea.run_life(o, director)
        if err is not None:
            raise err
        exp = schedule.Sched(mcfg).run()
        compare_traces(director.traces[0], exp, 0)
        nev = len(director.traces[0])
        sim_days = sum(sum(s) for s in hist["steps"])
        sig_parts = [(e["depth"], e["hook"], e["iface"]) for e in director.traces[0]]
        if any(s["op"] == "halt" for s in plan["steps"]):
            probes["truthy_return_fired"] = director.fired.get("halt", 0)
        if hist["burnSteps"] and min(hist["burnSteps"]) == 0:
            probes["zero_burnstep_cycle"] = 1
        if any(e["hook"] == "Coupled" for e in exp):
            probes["coupled_iterations"] = sum(1 for e in exp if e["hook"] == "Coupled")
        dn = cfg["settings"].get("deferredInterfaceNames")
        if dn and 0 < cfg["settings"].get("deferredInterfacesCycle", 0) < hist["nCycles"]:
            probes["deferred_crossing"] = 1
        # exclusion argument, on the finished operator (fresh lives only)
        if not cfg.get("restart") and plan.get("index", 0) % 3 == 0:
            # the database is finalised at EOL, so it is always among the excluded names here
            names = [a["name"] for a in cfg["actors"][:1]] + ["history", "database"]
            try:
                check_exclusion(o, director, cfg, stack, names)
                probes["exclusion_checked"] = 1
            except OracleFailure:
                raise
        # a second instance of a class that holds its function already (two plugins offering the same
        # interface, under names of their own): the one in the stack is as specific, the newcomer is ignored
        sims = [i for i in o.interfaces if getattr(i, "isSimActor", False) and i.function]
        if sims:
            first = sims[plan["seed"] % len(sims)]
            again = type(first)(o.r, o.cs)
            again.name = first.name + "_again"
            before = [(i.name, id(i)) for i in o.interfaces]
            o.addInterface(again, enabled=not first.enabled())
            after = [(i.name, id(i)) for i in o.interfaces]
            probes["second_instance_of_a_class_offered"] = 1
            if after != before:
                raise OracleFailure("C15.stack", f"a second instance of the class of {first.name} (same function) was offered: the stack went from {[n for n, _ in before]} to {[n for n, _ in after]}", {"what": "same-class-again"})
        # an interface added at a stated position of the stack (index 0: it goes first)
        if sims:
            from sim import armiboot as _ab

            extra_cls = _ab.make_actor_class({"name": "simfront", "function": "simfrontf"})
            front = extra_cls(o.r, o.cs)
            before = [i.name for i in o.interfaces]
            o.addInterface(front, index=plan["seed"] % 2, enabled=False)
            after = [i.name for i in o.interfaces]
            want = before[: plan["seed"] % 2] + ["simfront"] + before[plan["seed"] % 2 :]
            probes["interface_added_at_a_stated_position"] = 1
            if after != want:
                raise OracleFailure("C15.stack", f"an interface was added with index={plan['seed'] % 2}: the stack went from {before} to {after}", {"what": "index"})
        # ---------------- restart
        rs = cfg.get("restart")
        if rs:
            import os

            src = os.path.join(scratch, cs.caseTitle + ".h5")
            if not os.path.exists(src):
                raise OracleFailure("C15.restart", "first life left no database in the working directory", {})
            os.rename(src, os.path.join(scratch, "life0.h5"))
            extra = {"loadStyle": "fromDB", "reloadDBName": "life0.h5", "startCycle": rs["startCycle"], "startNode": rs["startNode"]}
            director.cval.clear()
            cs2, o2, infos2 = enginea.build_life(cfg, scratch, 1, director, extra_settings=extra)
            stack2 = enginea.stack_of(o2)
            if [(s["name"], s["enabled"], s["bolForce"], s["reverseAtEOL"]) for s in stack2] != [(s["name"], s["enabled"], s["bolForce"], s["reverseAtEOL"]) for s in stack]:
                raise OracleFailure("C15.stack", f"the restarted run built another stack: {[s['name'] for s in stack2]} after {[s['name'] for s in stack]}", {"life": 1})
            nodes = schedule.node_numbering(hist)
            k = nodes.index((rs["startCycle"], rs["startNode"]))
            prev = nodes[k - 1]
            halts2 = {h for h in halts}  # steps are life-0 only; none apply
            mcfg2 = _model_cfg(cfg, stack2, 1, (rs["startCycle"], rs["startNode"]), prev, set())
            err = enginea.run_life(o2, director)
            if err is not None:
                raise err
            exp2 = schedule.Sched(mcfg2).run()
            # BOL events of interfaces ahead of main see the freshly built reactor (0,0)
            seen_main = False
            for e in exp2:
                if e["hook"] != "BOL" or e["depth"] != 0:
                    break
                if e["iface"] == "main":
                    seen_main = True
                elif not seen_main:
                    e["cycle"], e["node"] = 0, 0
            compare_traces(director.traces[1], exp2, 1)
            nev += len(director.traces[1])
            sig_parts.append(("restart", rs["startCycle"], rs["startNode"]))
            sig_parts += [(e["depth"], e["hook"], e["iface"]) for e in director.traces[1]]
            probes["restart_node0" if rs["startNode"] == 0 else "restart_midcycle"] = 1
            _ = halts2
        for k, v in simos.stats.items():
            stats["fs_" + k] = v
        for k, v in director.fired.items():
            stats["op_" + k] = v
        stats["clock_jumps"] = clock.jumps
        return kernel.result(
            kernel.PASS,
            digest=log.digest(),
            nevents=nev,
            stats=stats,
            probes=probes,
            sim={"reactor_days": sim_days, "virtual_wall_s": clock.slept, "hook_calls": nev},
            sig=kernel.digest(sig_parts)[:16],
            nontrivial=any(e["iface"].startswith("sim") for e in director.traces[0]),
        )
    finally:
        enginea.cleanup(scratch)


_ = json
