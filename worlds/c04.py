"""C04 — a reactor saved to the database loads back observationally equal.

At every acknowledged write the simulator computes an observational digest of the live reactor
(public queries only).  The reader loads snapshots and compares field by field; loads twice;
writes the loaded reactor to a new file and loads that.  States come from the actors' workload
inside a real run (parameter assignments of several kinds, composition, temperature, dimension
and height changes, rotations, shuffles through the real fuel handler), not from one reference
reactor.
"""
import copy
import math
import os

from models import schedule
from sim import driver, kernel
from sim.kernel import OracleFailure
from worlds import c06, enginea, obsdigest

PROPERTY = "C04"
WORLD = "A"
RULE = (
    "one run = a real operator run whose sim actors change state between database writes "
    "(parameter values of several kinds on every level, number densities, temperatures, dimensions, "
    "block heights, assembly rotations, swaps through the fuel handler); at each acknowledged write an "
    "observational digest is taken; the reader loads a seed-chosen sample of snapshots, compares, "
    "loads again, saves the loaded reactor and loads that; distinct = hash of (reactor kind, blueprint "
    "spec, multiset of fired (hook, op kind)); non-trivial = at least one state-changing op fired "
    "before a compared snapshot"
)
REAL = [
    "Operator + interface stack + DatabaseInterface",
    "Database.writeToDB/load/_compose/_readParams/_writeParams, Layout, JaggedArray, FlagSerializer, h5py",
    "blueprints -> reactor (one-assembly reactor; generated hex cores: full/third symmetry, 1-2 rings, grid plate / plenum blocks, spent fuel pool)",
    "Component.setNumberDensity/setTemperature/setDimension, Block.setHeight, HexAssembly.rotate, FuelHandler.swapAssemblies",
]
STUB = ["physics (sim actors)", "wall clock (virtual)", "mv/cp (SimOS)", "git describe", "lscpu banner", "MPI (absent)"]
ASSUMPTIONS = [
    "reals compare at 1e-12 relative; sequences/arrays by value; never-assigned values compare as their default",
    "a child with a free-coordinate locator may reload with an index locator if its global coordinates are unchanged",
    "child order is compared against the original's children arranged by the model's own '<' (the layout stores children sorted)",
    "cached derived values (area/volume/mass) are compared through the public getters",
]
TIERS = {"quick": (160, 80, 150), "thorough": (6000, 600, 240)}

NUCS = ["U235", "U238", "ZR", "FE", "NA23", "CR"]
STR_VALUES = ["", "a", "hello world", "B-1", "x" * 40]


def gen_plan(rng, index, tier):
    n = rng.choice([1, 1, 2])
    bs = rng.choice([1, 2])
    st = {"nCycles": n, "burnSteps": bs, "cycleLength": 10.0, "availabilityFactor": 1.0}
    hist = schedule.expand_history(st)
    cfg = {"settings": st, "fs_latencies": []}
    kind = rng.random()
    if kind < 0.25:
        cfg["reactor"] = "smallest"
    else:
        cfg["reactor"] = "gen"
        sym = rng.choice(["full", "full", "third periodic"])
        rings = rng.choice([1, 2, 2])
        if sym == "full" and rng.random() < 0.15:
            rings = 3  # (19 assemblies: with a height of its own in each, the file holds more than ten grids)
        bp = {"rings": rings, "symmetry": sym, "nfuel": rng.choice([1, 2]), "plate": rng.random() < 0.5, "plenum": rng.random() < 0.4, "sfp": rng.random() < 0.85, "geom": rng.choice(["hex", "hex_corners_up"])}
        if sym != "full":
            # first third of a two-ring core: centre plus the two cells of ring 2 in the first third
            bp["cells"] = [[0, 0, "IC"]] + ([[1, 0, "OC"], [0, 1, "OC"]] if rings > 1 else [])
        if rng.random() < 0.22:
            # Cartesian cores (square ducts, Cartesian pin lattices): full (centred on an assembly or
            # on a corner) and quarter symmetry
            sym = rng.choice(["full", "full", "quarter reflective through center assembly", "quarter periodic", "quarter reflective"])
            bp.update({"geom": "cartesian", "symmetry": sym})
            bp.pop("cells", None)
            if sym == "full" and rng.random() < 0.4:
                bp["even"] = True
        if rng.random() < 0.3:
            bp["heights"] = [rng.choice([10.0, 25.0, 33.3]) for _ in range(4)]
        if rng.random() < 0.4:
            # systems placed at non-integer origins (free coordinates)
            # (the core's z origin stays 0: with a non-zero z origin createAssemblyOfType hands a fresh
            # assembly axial grid bounds taken from the core's *global* mesh - see DESIGN.md 10.3)
            bp["core_origin"] = [rng.choice([0.0, 1.25, -3.5, 0.1]), rng.choice([0.0, 2.75, 12.3]), 0.0]
            bp["sfp_origin"] = rng.choice([[1234.5, -250.25, 600.75], [1000.1, -7.77, 600.3]])  # (binary fractions, or not)
        if rng.random() < 0.35:
            # fuel blocks with a pin lattice: components carry multi-index locations
            bp["pins"] = True
            bp["pinrings"] = rng.choice([2, 3])
            bp["pinhole"] = rng.random() < 0.5
        cfg["blueprint"] = bp
        cfg["fuelHandler"] = True
        if bp["plate"]:
            st["stationaryBlockFlags"] = ["GRID_PLATE"]
    if rng.random() < 0.2:
        st["syncAfterWrite"] = False
    if rng.random() < 0.5:
        st["forceDbParams"] = ["percentBuByPin"]  # a parameter made persistent by the user
    actors = []
    for k in range(rng.choice([1, 2, 3])):
        actors.append({"name": f"sim{k}", "order": rng.choice([1.5, 2.5, 4.5, 6.5, 10.5, 12.5]), "function": f"simf{k}", "kwargs": {"enabled": True, "bolForce": False, "reverseAtEOL": False}})
    cfg["actors"] = actors
    pts = c06._points(hist, False, 1)
    steps = []
    uid = 0
    for _ in range(rng.randint(3, 16)):
        a = rng.choice(actors)
        pt = rng.choice(pts)
        uid += 1
        op = rng.choice(["setp", "setp", "setp", "ndens", "temp", "dim", "height", "rotate", "std", "convert", "edge", "pitch"])
        if rng.random() < 0.04:
            op = "scopeassign"
        elif a["order"] > 11.0 and pt[0] == "EveryNode" and rng.random() < 0.5:
            op = "rewrite"  # behind the database interface: the node has just been written
        kw = {"idx": rng.randrange(1000), "u": uid}
        if op == "setp":
            kw["level"] = rng.choice(["reactor", "core", "assembly", "block", "component"])
            kw["param"] = rng.choice(["vP0", "vP1", "vP2", "vF0", "vI0", "vS0", "vVol"])
            # value kinds the database accepts without ado; what it refuses or normalises is C05's subject
            kw["vkind"] = rng.choice(["float", "int", "arr", "arr2", "none", "all-arr", "all-float", "all-str", "all-bool", "some-arr2"])
            if kw["param"] == "vF0":
                kw["vkind"] = rng.choice(["float", "all-float"])
            if rng.random() < 0.04:
                # a parameter that has no default, given a value on one object only
                kw["param"] = "vN0"
                kw["vkind"] = "float"
                kw["level"] = rng.choice(["block", "assembly", "component"])
            if kw["param"] == "vVol":
                # a volume-integrated quantity is a number (geometry conversions scale it)
                kw["vkind"] = rng.choice(["float", "all-float", "arr", "all-arr"])
            if kw["param"] == "vI0":
                kw["vkind"] = "int"
            if kw["param"] == "vS0":
                kw["vkind"] = "str"
        elif op == "ndens":
            kw["nuc"] = rng.choice(NUCS)
            kw["factor"] = rng.choice([0.5, 0.9, 1.1, 2.0, 0.0])
        elif op == "temp":
            kw["T"] = rng.choice([350.0, 400.0, 425.5, 450.0, 475.0])  # keeps the duct inside the pitch (no overlap)
        elif op == "dim":
            kw["factor"] = rng.choice([0.98, 0.995, 1.001])
        elif op == "height":
            kw["factor"] = rng.choice([0.9, 1.05, 1.2])
        elif op == "rotate":
            kw["k"] = rng.choice([1, 2, 3, 5])
        elif op == "std":
            kw["which"] = rng.choice(["power", "flux", "mgFlux", "keff", "notes", "buLimit", "pdens", "detailedNDens", "percentBuByPin", "nozzleType", "crElevation", "xsType", "allheights", "envGroup", "onesite"])
            if kw["which"] == "onesite" and cfg.get("reactor") == "gen" and cfg["blueprint"].get("geom", "hex") != "cartesian":
                cfg["blueprint"]["pins"] = True
                cfg["blueprint"].setdefault("pinrings", 2)
            if kw["which"] in ("nozzleType", "crElevation") and cfg.get("reactor") == "gen":
                cfg["blueprint"]["nozzle"] = True
        steps.append(c06._mk_step(0, a["name"], pt, op, **kw))
    if any(s_["op"] == "rewrite" for s_ in steps) and cfg.get("reactor") == "gen" and cfg["blueprint"].get("geom", "hex") != "cartesian":
        # what a turned assembly changes in the stored layout is the place of its pins
        cfg["blueprint"]["pins"] = True
        cfg["blueprint"].setdefault("pinrings", 2)
        cfg["blueprint"]["pinhole"] = True
    if cfg.get("reactor") == "gen" and cfg["blueprint"].get("rings") == 3:
        # the large core is there for this: every assembly with a height of its own, from the first node on
        steps.insert(0, c06._mk_step(0, actors[0]["name"], pts[0], "std", idx=0, u=1, which="allheights"))
    if cfg.get("fuelHandler"):
        st["trackAssems"] = rng.random() < 0.6
        for c in range(n):
            for _ in range(rng.choice([0, 1, 2])):
                steps.append({"life": 0, "actor": "fuelHandler", "hook": "BOC", "cycle": c, "op": "swap", "a": rng.randrange(1000), "b": rng.randrange(1000)})
            if cfg["blueprint"].get("sfp") and rng.random() < 0.3:
                # discharge to the spent-fuel pool: the pool's own grid and its assemblies become part of the state
                steps.append({"life": 0, "actor": "fuelHandler", "hook": "BOC", "cycle": c, "op": "discharge", "a": rng.randrange(1000)})
    if any(s["op"] == "discharge" for s in steps):
        # fresh assemblies arrive with unset verification parameters; str/bool collections with unset
        # entries are refused at write time (C05's subject), so those kinds are not used in such runs
        for s in steps:
            if s.get("vkind") in ("all-str", "all-bool"):
                s["vkind"] = "all-float"
            if s.get("param") == "vS0":
                s["param"] = "vP2"
                s["vkind"] = "float"
    cfg["reader"] = {"loads": rng.randint(1, 3), "pick": rng.randrange(10**6), "resave": rng.random() < 0.6, "sortReactor": True}
    return {"config": cfg, "steps": steps}


def simplify(plan):
    cfg = plan["config"]
    st = cfg["settings"]
    if cfg.get("reactor") == "gen":
        bp = cfg["blueprint"]
        for key, simple in (("pins", False), ("plenum", False), ("plate", False), ("sfp", False), ("nfuel", 1), ("rings", 1), ("symmetry", "full"), ("geom", "hex")):
            if bp.get("geom") == "cartesian" and key in ("geom", "symmetry"):
                continue
            if bp.get(key) != simple and not (key == "rings" and bp.get("cells")):
                p = copy.deepcopy(plan)
                p["config"]["blueprint"][key] = simple
                if key == "symmetry":
                    p["config"]["blueprint"].pop("cells", None)
                if key == "plate":
                    p["config"]["settings"].pop("stationaryBlockFlags", None)
                yield p
        if "heights" in bp:
            p = copy.deepcopy(plan)
            p["config"]["blueprint"].pop("heights")
            yield p
    if st["nCycles"] > 1:
        p = copy.deepcopy(plan)
        p["config"]["settings"]["nCycles"] -= 1
        yield p
    if st["burnSteps"] > 1:
        p = copy.deepcopy(plan)
        p["config"]["settings"]["burnSteps"] -= 1
        yield p
    if cfg["reader"].get("resave"):
        p = copy.deepcopy(plan)
        p["config"]["reader"]["resave"] = False
        yield p
    used = {s["actor"] for s in plan["steps"]}
    for k, a in enumerate(cfg["actors"]):
        if a["name"] not in used and len(cfg["actors"]) > 1:
            p = copy.deepcopy(plan)
            p["config"]["actors"].pop(k)
            yield p
            break


# ---- ops -----------------------------------------------------------------------------------------
def _value(kind, u, j):
    import numpy as np

    if kind in ("float", "all-float"):
        return 1000.0 + u + 0.001 * j
    if kind == "int":
        return 7 * u + j
    if kind in ("str", "all-str"):
        return STR_VALUES[(u + j) % len(STR_VALUES)] + str(u)
    if kind in ("bool", "all-bool"):
        return bool((u + j) % 2)
    if kind in ("arr", "all-arr"):
        return np.array([float(u), 0.5 * j, -1.0])
    if kind == "arr2":
        return [[float(u), 1.0], [2.0, float(j)]]
    return None


def op_setp(d, st, actor):
    r = actor.o.r
    objs = c06.objects_at_level(r, st["level"])
    if not objs:
        return
    kind = st["vkind"]
    o = objs[st["idx"] % len(objs)]
    # one value kind per (class, parameter) for the whole run: mixed kinds are C05's subject
    some = kind == "some-arr2"
    if some:
        kind = "arr2"
    have = d.kinds.setdefault((type(o).__name__, st["param"]), kind)
    base = lambda k: k[4:] if k.startswith("all-") else k  # noqa: E731
    if kind != "none" and base(have) != base(kind):
        kind = ("all-" if kind.startswith("all-") else "") + base(have)
        if base(have) in ("str", "bool", "none"):
            kind = "all-" + base(have) if base(have) != "none" else st["vkind"]
            d.kinds[(type(o).__name__, st["param"])] = kind
    if kind == "none" and base(have) in ("str", "bool"):
        return  # str/bool collections with unset entries are refused at write time (C05's subject)
    if some and kind == "arr2":
        # every other object of that class holds a 2-D value, the rest nothing: the ragged route, several entries
        cls = type(o)
        for j, x in enumerate(y for y in objs if type(y) is cls):
            if j % 2 == 0:
                x.p[st["param"]] = _value("arr2", st["u"], j)
    elif kind.startswith("all-"):
        # every object of that class gets a value of the same shape
        cls = type(o)
        for j, x in enumerate(y for y in objs if type(y) is cls):
            x.p[st["param"]] = _value(kind, st["u"], j)
    else:
        o.p[st["param"]] = _value(kind, st["u"], 0)
    d.dirty = True


def op_ndens(d, st, actor):
    d.mass_dirty = True
    comps = c06.objects_at_level(actor.o.r, "component")
    c = comps[st["idx"] % len(comps)]
    nd = c.getNumberDensities()
    nuc = st["nuc"] if st["nuc"] in nd else (sorted(nd)[st["idx"] % len(nd)] if nd else None)
    if nuc is None:
        return
    c.setNumberDensity(nuc, nd[nuc] * st["factor"])
    d.dirty = True


def op_temp(d, st, actor):
    d.mass_dirty = True
    comps = c06.objects_at_level(actor.o.r, "component")
    c = comps[st["idx"] % len(comps)]
    c.setTemperature(st["T"])
    d.dirty = True


def op_dim(d, st, actor):
    d.mass_dirty = True
    from armi.reactor.components import basicShapes

    comps = [c for c in c06.objects_at_level(actor.o.r, "component") if isinstance(c, basicShapes.Circle) and not isinstance(c.p.od, tuple) and c.p.od]
    if not comps:
        return
    c = comps[st["idx"] % len(comps)]
    c.setDimension("od", c.getDimension("od", cold=True) * st["factor"], cold=True)
    d.dirty = True


def op_height(d, st, actor):
    d.mass_dirty = True
    core = actor.o.r.core
    # blocks designated stationary keep their height: exchanging stationary blocks of different
    # heights is what swapAssemblies itself warns against
    blks = [b for b in c06.objects_at_level(actor.o.r, "block") if not any(b.hasFlags(f) for f in core.stationaryBlockFlagsList)]
    b = blks[st["idx"] % len(blks)]
    b.setHeight(b.getHeight() * st["factor"])
    d.dirty = True


def op_rotate(d, st, actor):
    from armi.reactor.assemblies import HexAssembly

    asms = [a for a in actor.o.r.core if isinstance(a, HexAssembly)]
    if not asms:
        return
    a = asms[st["idx"] % len(asms)]
    a.rotate(math.radians(60.0 * st["k"]))
    d.dirty = True


def op_std(d, st, actor):
    import numpy as np

    r = actor.o.r
    blks = c06.objects_at_level(r, "block")
    b = blks[st["idx"] % len(blks)]
    w = st["which"]
    u = float(st["u"])
    if w == "power":
        b.p.power = 1e3 * u
    elif w == "flux":
        b.p.flux = 1e10 + u
    elif w == "mgFlux":
        for j, bb in enumerate(blks):
            bb.p.mgFlux = np.array([u, 2.0 * j, 3.0])
    elif w == "keff":
        r.core.p.keff = 1.0 + 1e-3 * u
    elif w == "notes":
        b.parent.p.notes = f"note {st['u']}"
    elif w == "buLimit":
        b.p.buLimit = 10.0 + u
    elif w == "pdens":
        b.p.pdens = 0.5 * u
    elif w == "percentBuByPin":
        # one entry per pin (the largest multiplicity in the block), persistent through forceDbParams
        for j, bb in enumerate(blks):
            mult = max([int(c.getDimension("mult")) for c in bb if c.getDimension("mult")] or [1])
            bb.p.percentBuByPin = [round(0.01 * u + 0.001 * j + 1e-4 * i, 6) for i in range(mult)]
    elif w == "allheights":
        # every assembly gets a fuel height of its own (and with it an axial grid of its own)
        core = r.core
        for kk, a in enumerate(sorted(core, key=lambda x: tuple(int(v) for v in x.spatialLocator.getCompleteIndices()[:2]))):
            fb = [x for x in a if not any(x.hasFlags(f) for f in core.stationaryBlockFlagsList)]
            if fb:
                fb[-1].setHeight(fb[-1].getHeight() * (1.0 + 0.01 * (kk + 1)))
        d.mass_dirty = True
    elif w == "onesite":
        # a pin component that sits on a single site of its block's lattice (still a multi-site locator)
        from armi.reactor import grids as _grids

        for bb in blks:
            if bb.spatialGrid is None:
                continue
            pin = next((c for c in bb if isinstance(c.spatialLocator, _grids.MultiIndexLocation)), None)
            if pin is not None:
                single = _grids.MultiIndexLocation(grid=bb.spatialGrid)
                single.append(bb.spatialGrid[0, 0, 0])
                pin.spatialLocator = single
                break
    elif w == "envGroup":
        # burnup/environment groups beyond the 26th are lower-case letters
        for j, bb in enumerate(blks):
            bb.p.envGroup = ["B", "Z", "a", "b", "z", "Y"][(st["u"] + j) % 6]
    elif w == "xsType":
        # cross-section types beyond the 26 capital letters are lower-case letters
        for j, bb in enumerate(blks):
            bb.p.xsType = ["B", "a", "q", "z", "Z"][(st["u"] + j) % 5]
    elif w == "nozzleType":
        # a value the assembly design states in the blueprints, changed during the run (a re-orificing)
        b.parent.p.nozzleType = f"Orifice-{st['u']}"
    elif w == "crElevation":
        b.parent.p.crCurrentElevation = 30.0 + u
    elif w == "detailedNDens":
        for j, bb in enumerate(blks):
            bb.p.detailedNDens = np.array([1e-3 * u, 1e-4 * j])
    d.dirty = True


def _wrap(fn):
    def run(d, st, actor):
        out = fn(d, st, actor)
        refresh_derived(d, actor)
        return out

    return run


def op_convert(d, st, actor):
    """Geometry conversion as a state-changing step: third core -> full core, or back."""
    from armi.reactor.converters import geometryConverters as gc

    r = actor.o.r
    ch = getattr(d, "changer", None)
    if ch is not None:
        ch.restorePreviousGeometry(r)
        d.changer = None
        d.probes["geometry_restored"] += 1
    elif getattr(d, "edge", None) is not None:
        return  # with edge assemblies pending the conversion is C13's subject
    elif not r.core.isFullCore and str(r.core.geomType).startswith("hex"):
        ch = gc.ThirdCoreHexToFullCoreChanger(actor.o.cs)
        ch.convert(r)
        d.changer = ch
        d.probes["geometry_converted"] += 1
    else:
        return
    d.dirty = True


def op_edge(d, st, actor):
    """Edge assemblies are added to a third core (what a finite-difference neutronics interface does
    around its solve), or taken out again: snapshots written in between hold them."""
    from armi.reactor.converters import geometryConverters as gc

    r = actor.o.r
    e = getattr(d, "edge", None)
    if e is not None:
        e.removeEdgeAssemblies(r.core)
        d.edge = None
        d.probes["edge_assemblies_removed"] += 1
    elif getattr(d, "changer", None) is None and not r.core.isFullCore and str(r.core.geomType).startswith("hex"):
        n0 = len(r.core)
        e = gc.EdgeAssemblyChanger()
        e.addEdgeAssemblies(r.core)
        d.edge = e
        d.probes["edge_assemblies_added" if len(r.core) > n0 else "edge_assemblies_none_to_add"] += 1
    else:
        return
    d.dirty = True


def op_pitch(d, st, actor):
    """The lattice pitch of the core's grid changes between two writes (a grid-plate expansion)."""
    r = actor.o.r
    g = r.core.spatialGrid
    f = 1.0 + 0.005 * (1 + st["u"] % 5)
    if str(r.core.geomType).startswith("hex"):
        g.changePitch(float(g.pitch) * f)
    else:
        px, py = g.pitch
        g.changePitch(float(px) * f, float(py) * f)
    d.probes["core_pitch_changed"] += 1
    d.dirty = True


def op_scopeassign(d, st, actor):
    """While a retainState scope is open on one block, a parameter nobody has assigned before is
    assigned on *another* block (outside the scope): that value is part of the state to be saved."""
    blks = c06.objects_at_level(actor.o.r, "block")
    if len(blks) < 2:
        return
    a = blks[st["idx"] % len(blks)]
    b = blks[(st["idx"] + 1) % len(blks)]
    with a.retainState():
        b.p.vP5 = 500.0 + st["u"]
    d.probes["assigned_beside_an_open_scope"] += 1
    d.dirty = True


def op_rewrite(d, st, actor):
    """The node has been written; an assembly is turned (the pins' places are part of the stored
    layout) and the same node is written again.  A second write of a node is refused; if it is not,
    what is stored must still be one state of the reactor (the reader compares it with the state
    at the acknowledged write)."""
    o = actor.o
    dbi = o.getInterface("database")
    db = dbi._db if dbi is not None else None
    if db is None or not db.isOpen():
        return
    r = o.r
    if f"c{int(r.p.cycle):02d}n{int(r.p.timeNode):02d}" not in db.h5db:
        return
    op_rotate(d, {"idx": st["idx"], "k": 1 + st["idx"] % 4}, actor)
    op_temp(d, {"idx": st["idx"], "T": 431.0 + st["idx"] % 7}, actor)  # (temperatures are kept in the layout too)
    refresh_derived(d, actor)
    try:
        db.writeToDB(r)
    except Exception:  # noqa: BLE001 - the refusal
        d.probes["second_write_of_a_node_refused"] += 1
    else:
        d.probes["second_write_of_a_node_accepted"] += 1
    if not hasattr(d, "rewritten"):
        d.rewritten = []
    d.rewritten.append(f"c{int(r.p.cycle):02d}n{int(r.p.timeNode):02d}")


OPS = {"rewrite": op_rewrite, "scopeassign": op_scopeassign, "convert": op_convert, "edge": op_edge, "pitch": op_pitch, "setp": op_setp, "ndens": op_ndens, "temp": op_temp, "dim": op_dim, "height": op_height, "rotate": op_rotate, "std": op_std}


def refresh_derived(d, actor):
    """What any composition-changing physics interface does before handing over: keep the derived
    block mass parameters (kgHM, kgFis, puFrac) consistent; the loader recomputes them."""
    if getattr(d, "mass_dirty", False):
        actor.o.r.core.setBlockMassParams()
        d.mass_dirty = False


def on_write(d, db, reactor, ent):
    name = f"c{ent['cycle']:02d}n{ent['node']:02d}{ent['label']}"
    ent["name"] = name
    ent["dirty"] = bool(d.dirty)
    ent["nops"] = sum(d.fired.values())
    ent["digest"] = obsdigest.digest(reactor)
    d.dirty = False


def field_class(field):
    return field.split(".", 1)[1] if "." in field else field


def judge(diffs, label, known, findings, ctx=None):
    ctx = ctx or {}
    """Raise for the first difference that is not a listed finding; count the listed ones."""
    for sn, field, a, b in diffs:
        det = {"swaps": ctx.get("swaps", False), "stationary": ctx.get("stationary", False), "geom": ctx.get("geom"), "field": field_class(field), "orig": kernel.canon(a) if not isinstance(a, (list, dict)) or len(str(a)) < 60 else "...", "loaded": kernel.canon(b) if not isinstance(b, (list, dict)) or len(str(b)) < 60 else "...", "stage": label.split(":")[0]}
        res = {"oracle": "C04.roundtrip", "detail": det}
        f = driver.match_finding(findings, PROPERTY, res)
        if f is not None:
            known[f["id"]] = known.get(f["id"], 0) + 1
            continue
        raise OracleFailure("C04.roundtrip", f"{label}: object serial {sn} field {field}: written {str(a)[:300]} | read back {str(b)[:300]}", det)


def execute(plan):
    cfg = plan["config"]
    log, scratch, clock, simos, d = enginea.new_run(plan)
    d.ops.update({k: _wrap(v) for k, v in OPS.items()})
    d.on_write_cb = on_write
    d.choose_swaps = lambda fh: c06.choose_swaps(d, fh)
    d.dirty = False
    d.nswaps = 0
    d.kinds = {}
    known = {}
    findings = driver.load_findings()
    probes = d.probes
    try:
        from armi.bookkeeping.db.database import Database

        cs, o, infos = enginea.build_life(cfg, scratch, 0, d)
        err = enginea.run_life(o, d)
        if err is not None:
            raise err
        path = os.path.join(scratch, cs.caseTitle + ".h5")
        writes = {w["name"]: w for w in d.writes}
        order = sorted(writes)
        rd = cfg["reader"]
        rot = rd["pick"] % len(order)
        # prefer snapshots written after state changes
        cand = [nm for nm in order[rot:] + order[:rot] if writes[nm]["nops"] > 0] or order
        # (nodes somebody tried to write a second time are looked at first)
        again = [nm for nm in getattr(d, "rewritten", []) if nm in writes]
        chosen = (again[:1] + [nm for nm in cand if nm not in again[:1]])[: max(rd["loads"], 1)]
        compared = 0
        ctx = {"swaps": d.nswaps > 0, "stationary": bool(cfg["settings"].get("stationaryBlockFlags")), "geom": str(cfg.get("blueprint", {}).get("geom", "hex")) if cfg.get("reactor") == "gen" else "hex"}
        with Database(path, "r") as db:
            for nm in chosen:
                c, n = int(nm[1:3]), int(nm[4:6])
                want = writes[nm]["digest"]
                r1 = db.load(c, n, cs=cs, statePointName=nm[6:] or None)
                d1 = obsdigest.digest(r1)
                judge(obsdigest.compare(want, d1), f"load:{nm}", known, findings, ctx)
                r2 = db.load(c, n, cs=cs, statePointName=nm[6:] or None)
                d2 = obsdigest.digest(r2)
                judge(obsdigest.compare(d1, d2), f"load-twice:{nm}", known, findings)
                compared += 1
                if rd.get("resave"):
                    out = os.path.join(scratch, f"resave-{nm}.h5")
                    db2 = Database(out, "w")
                    db2._permission = "w"
                    db2.open()
                    try:
                        db2.writeInputsToDB(cs)
                        db2.writeToDB(r1)
                    finally:
                        db2.close(True)
                    with Database(out, "r") as db3:
                        r3 = db3.load(int(r1.p.cycle), int(r1.p.timeNode), cs=cs)
                    d3 = obsdigest.digest(r3)
                    judge(obsdigest.compare(d1, d3), f"resave:{nm}", known, findings)
                    probes["resaved"] += 1
        probes["snapshots_compared"] += compared
        if d.nswaps:
            probes["compared_after_swap"] += 1
        if any(v.get("loc", [""])[0] == "multi" for v in writes[order[0]]["digest"]["objs"].values()):
            probes["multi_index_locations_compared"] += 1
        for k in ("rotate", "height", "temp", "ndens", "dim"):
            if d.fired.get(k):
                probes["state_" + k] += 1
        stats = {"op_" + k: v for k, v in d.fired.items()}
        stats["acknowledged_writes"] = len(d.writes)
        nobj = len(writes[order[0]]["digest"]["objs"])
        sig = [cfg.get("reactor"), cfg.get("blueprint"), sorted((s["hook"], s["op"]) for s in plan["steps"])]
        return kernel.result(
            kernel.PASS,
            digest=log.digest(),
            nevents=len(log),
            stats=stats,
            probes=dict(probes),
            known=known,
            sim={"virtual_wall_s": clock.slept, "objects_compared": nobj * compared, "reactor_days": sum(sum(s) for s in schedule.expand_history(cfg["settings"])["steps"])},
            sig=kernel.digest(sig)[:16],
            nontrivial=any(writes[nm]["nops"] > 0 for nm in chosen),
        )
    finally:
        enginea.cleanup(scratch)
