"""Observational digest of a live reactor (public queries only), and a field-by-field comparison.

digest(r) -> {"order": [serial numbers in naive child order, depth first],
              "objs": {serial: {field: value}}}
Comparison rules are fixed in DESIGN.md §3.5: reals to 1e-12 relative, sequences and arrays by
value, values never assigned compare as their default, child order compared against the
original's children arranged by the model's own '<'.
"""
import math

import numpy as np


def _plain(v):
    if isinstance(v, np.ndarray):
        return _plain(v.tolist())
    if isinstance(v, np.generic):
        return _plain(v.item())
    if isinstance(v, (list, tuple)):
        return [_plain(x) for x in v]
    if isinstance(v, dict):
        return {str(k): _plain(x) for k, x in v.items()}
    if isinstance(v, (bool, int, float, str)) or v is None:
        return v
    # Flags and other enum-like values: compare by their names
    try:
        from armi.utils.flags import Flag

        if isinstance(v, Flag):
            return {"__flags__": sorted(str(v).split(".", 1)[-1].split("|"))}
    except Exception:  # noqa: BLE001
        pass
    return repr(v)


def locator_digest(loc):
    from armi.reactor import grids

    if loc is None:
        return ["none"]
    if isinstance(loc, grids.MultiIndexLocation):
        return ["multi", sorted([int(x) for x in sub.getCompleteIndices()] for sub in loc)]
    if isinstance(loc, grids.CoordinateLocation):
        return ["coord", [float(x) for x in loc.getGlobalCoordinates()]]
    if isinstance(loc, grids.IndexLocation):
        return ["index", [int(loc.i), int(loc.j), int(loc.k)], loc.grid is not None]
    return [type(loc).__name__]


def grid_digest(g):
    if g is None:
        return None
    red = g.reduce()
    # geometry type and symmetry through the public properties (the raw constructor strings
    # 'hex_corners_up' and 'hex' both denote GeomType.HEX; orientation lives in the unit steps)
    try:
        gt = str(g.geomType)
    except Exception:  # noqa: BLE001 - grids without a geometry type
        gt = str(red.geomType)
    try:
        sym = str(g.symmetry)
    except Exception:  # noqa: BLE001
        sym = str(red.symmetry)
    # what the grid *does*, independently of its constructor arguments: the offset property and
    # the centre of a few sample cells
    try:
        off = _plain(g.offset)
    except Exception:  # noqa: BLE001
        off = None
    cells = []
    for idx in ((0, 0, 0), (1, 0, 0), (0, 1, 0), (2, -1, 0), (0, 0, 1)):
        try:
            cells.append([float(x) for x in g.getCoordinates(idx)])
        except Exception:  # noqa: BLE001 - index outside an axial / bounded grid
            cells.append(None)
    return [type(g).__name__, _plain(red.unitSteps), _plain(red.bounds), _plain(red.unitStepLimits), _plain(red.offset), gt, sym, off, cells]


def obj_digest(o, light=False):
    from armi.reactor import parameters
    from armi.reactor.components import Component

    d = {"cls": type(o).__name__, "name": o.name}
    d["loc"] = locator_digest(o.spatialLocator)
    try:
        d["xyz"] = [float(x) for x in o.spatialLocator.getGlobalCoordinates()]
    except Exception:  # noqa: BLE001
        d["xyz"] = None
    d["grid"] = grid_digest(o.spatialGrid)
    params = {}
    for pd in o.p.paramDefs:
        if not pd.saveToDB or pd.name in ("serialNum", "maxAssemNum"):
            continue  # serial numbers are compared as keys; maxAssemNum is a monotone counter the loader recomputes
        try:
            v = o.p.get(pd.name, pd.default)
        except Exception:  # noqa: BLE001
            v = pd.default
        if v is parameters.NoDefault:
            continue
        if isinstance(o, Component) and pd.name in o.DIMENSION_NAMES:
            continue  # dimensions are digested below, resolved
        if isinstance(o, Component) and pd.name == "volume":
            continue  # lazily refreshed cache of a derived quantity: observed through getVolume() below
        params[pd.name] = _plain(v)
    d["params"] = params
    if isinstance(o, Component):
        d["material"] = type(o.material).__name__
        # ... and what that material is made of and weighs (blueprints modify materials: enrichment, alloy fractions)
        try:
            d["materialComposition"] = {str(k): _num(v) for k, v in sorted(o.material.massFrac.items()) if v}
        except Exception:  # noqa: BLE001
            d["materialComposition"] = None
        d["Tinput"] = float(o.inputTemperatureInC)
        d["Thot"] = float(o.temperatureInC)
        dims = {}
        for nm in o.DIMENSION_NAMES:
            raw = o.p[nm]
            if isinstance(raw, tuple):
                dims[nm] = ["link", raw[0].name, raw[1], _num(o.getDimension(nm, cold=True)), _num(o.getDimension(nm))]
            else:
                dims[nm] = ["val", _num(raw), _num(o.getDimension(nm)) if raw is not None else None]
        d["dims"] = dims
        d["ndens"] = {k: float(v) for k, v in o.getNumberDensities().items()}
        if not light:
            try:
                d["area"] = float(o.getArea())
                d["volume"] = float(o.getVolume())
                d["mass"] = float(o.getMass())
            except Exception as e:  # noqa: BLE001
                d["area"] = d["volume"] = d["mass"] = f"!{type(e).__name__}"
    return d


def _num(v):
    if v is None:
        return None
    try:
        return float(v)
    except (TypeError, ValueError):
        return repr(v)


def digest(r, light=False):
    objs = {}
    order = []

    def walk(o):
        sn = int(o.p.serialNum)
        order.append(sn)
        objs[sn] = obj_digest(o, light)
        objs[sn]["children"] = [int(c.p.serialNum) for c in o]
        objs[sn]["sorted_children"] = [int(c.p.serialNum) for c in sorted(o)]
        for c in o:
            walk(c)

    walk(r)
    return {"order": order, "objs": objs}


def close(a, b, rel=1e-12):
    if isinstance(a, bool) or isinstance(b, bool):
        return a == b
    if isinstance(a, (int, float)) and isinstance(b, (int, float)):
        if isinstance(a, float) and math.isnan(a):
            return isinstance(b, float) and math.isnan(b)
        if a == b:
            return True
        return abs(a - b) <= rel * max(abs(a), abs(b))
    if isinstance(a, (list, tuple)) and isinstance(b, (list, tuple)):
        return len(a) == len(b) and all(close(x, y, rel) for x, y in zip(a, b))
    if isinstance(a, dict) and isinstance(b, dict):
        return set(a) == set(b) and all(close(a[k], b[k], rel) for k in a)
    return a == b


def compare(orig, loaded, rel=1e-12, sorted_on_load=True):
    """Yield (serial, field, original, loaded) differences."""
    oo, lo = orig["objs"], loaded["objs"]
    if set(oo) != set(lo):
        yield (None, "objects", sorted(set(oo) - set(lo))[:5], sorted(set(lo) - set(oo))[:5])
        return
    for sn in orig["order"]:
        a, b = oo[sn], lo[sn]
        want_children = a["sorted_children"] if sorted_on_load else a["children"]
        if want_children != b["children"]:
            yield (sn, "children", want_children, b["children"])
        for k in a:
            if k in ("children", "sorted_children"):
                continue
            if k == "params":
                for pn in sorted(set(a["params"]) | set(b["params"])):
                    va = a["params"].get(pn, "<absent>")
                    vb = b["params"].get(pn, "<absent>")
                    if not close(va, vb, rel):
                        yield (sn, f"{a['cls']}.p.{pn}", va, vb)
            elif k == "dims":
                for dn in a["dims"]:
                    if not close(a["dims"][dn], b["dims"].get(dn), rel):
                        yield (sn, f"{a['cls']}.dim.{dn}", a["dims"][dn], b["dims"].get(dn))
            elif k == "loc":
                ka, kb = a["loc"][0], (b.get("loc") or [None])[0]
                if {ka, kb} == {"coord", "index"}:
                    # a free-coordinate child reloaded as an index location (or vice versa): the
                    # position is compared through the global coordinates ("xyz")
                    continue
                if not close(a[k], b.get(k), rel):
                    yield (sn, f"{a['cls']}.loc", a[k], b.get(k))
            elif not close(a[k], b.get(k), rel):
                yield (sn, f"{a['cls']}.{k}", a[k], b.get(k))
