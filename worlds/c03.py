"""C03 — thermal expansion conserves mass and scales dimensions for all materials and shapes.

World B (weakest fit, see DESIGN.md §4): the law is pointwise; the history is the *temperature path*
(and hot/cold dimension assignments, and linked-dimension configurations) along which it is
evaluated.  Swarm: one (2-D shape class, library material) pair per run, all pairs covered
round-robin by run index; the path, dimensions and link configuration are seed-chosen.
"""
import copy

from sim import driver, kernel
from sim.kernel import OracleFailure

PROPERTY = "C03"
WORLD = "B"
RULE = (
    "one run = one (2-D shape class, library material) pair chosen round-robin by run index over 11 shapes x "
    "all instantiable library materials, seed-chosen cold dimensions, input temperature, a temperature path of "
    "2-8 points inside the material's stated expansion range, a second path to the same end temperature, hot "
    "dimension assignments and a linked companion component; invariants checked at every path point; distinct "
    "= distinct (shape, material, quantised path) triples; non-trivial = the material has a non-zero "
    "composition and the path visits at least two different temperatures"
)
REAL = [
    "Component.setTemperature/getThermalExpansionFactor/getDimension/setDimension/getArea/getNumberDensities/clearLinkedCache",
    "Material.linearExpansionPercent/linearExpansionFactor/getThermalExpansionDensityReduction of every library material",
    "basicShapes / complexShapes area formulas and THERMAL_EXPANSION_DIMS, _DimensionLink resolution",
]
STUB = ["no reactor, no operator, no clock, no I/O in this world: components are constructed directly"]
ASSUMPTIONS = [
    "temperatures stay inside the material's stated linear-expansion validity range (or 50-650 C where none is stated)",
    "relative tolerance 1e-10",
    "the linear expansion factor is recomputed independently from the material's linearExpansionPercent correlation",
]
TIERS = {"quick": (480, 80, 60), "thorough": (20000, 600, 60)}
TOL = 1e-10

SHAPES = {
    "Circle": {"od": 1.0, "id": 0.3, "mult": 7},
    "Hexagon": {"op": 10.0, "ip": 9.0, "mult": 1},
    "Rectangle": {"lengthOuter": 6.0, "lengthInner": 4.0, "widthOuter": 5.0, "widthInner": 3.0, "mult": 2},
    "SolidRectangle": {"lengthOuter": 5.0, "widthOuter": 3.0, "mult": 1},
    "Square": {"widthOuter": 3.0, "widthInner": 2.0, "mult": 1},
    "Triangle": {"base": 3.0, "height": 2.0, "mult": 4},
    "UnshapedComponent": {"area": 3.0},
    "Helix": {"od": 0.25, "id": 0.0, "axialPitch": 30.0, "helixDiameter": 2.0, "mult": 9},
    "HexHoledCircle": {"od": 16.0, "holeOP": 3.0, "mult": 1},
    "HoledHexagon": {"op": 16.5, "holeOD": 3.6, "nHoles": 7, "mult": 1},
    "HoledRectangle": {"holeOD": 1.5, "lengthOuter": 6.0, "widthOuter": 4.0, "mult": 1},
    "HoledSquare": {"holeOD": 1.0, "widthOuter": 3.0, "mult": 1},
}
SHAPE_NAMES = sorted(SHAPES)
_MATERIALS = None
NO_CORRELATION = []
ZERO_T = {}
NO_RANGE = set()


def material_table():
    """[(name, isFluidOrCustom, (TminC, TmaxC))] for every instantiable library material (sorted)."""
    global _MATERIALS
    if _MATERIALS is not None:
        return _MATERIALS
    import armi.materials as M
    from armi.materials import material

    out = []
    for K in M.iterAllMaterialClassesInNamespace(M):
        nm = K.__name__
        if nm.startswith("_") or nm in ("Material", "Fluid", "FuelMaterial", "SimpleSolid"):
            continue
        try:
            m = K()
        except Exception:  # noqa: BLE001
            continue
        fluidish = isinstance(m, material.Fluid) or nm == "Custom"
        try:
            m.pseudoDensity(Tc=100.0)
        except NotImplementedError:
            continue  # abstract material ("use a concrete instance")
        except Exception:  # noqa: BLE001
            pass
        lo, hi = 50.0, 650.0
        pv = getattr(m, "propertyValidTemperature", {}) or {}
        for key, (rng, unit) in pv.items():
            if "expansion" in key and "volumetric" not in key:
                a, b = float(rng[0]), float(rng[1])
                if unit == "K":
                    a, b = a - 273.15, b - 273.15
                lo, hi = max(lo, a + 1.0), min(hi if hi > a else b, b - 1.0)
        if hi <= lo + 10.0:
            lo, hi = lo, lo + 50.0
        if not fluidish:
            try:
                flat = m.linearExpansionPercent(Tc=lo) == 0 and m.linearExpansionPercent(Tc=hi) == 0 and m.linearExpansionPercent(Tc=0.5 * (lo + hi)) == 0
            except Exception:  # noqa: BLE001
                flat = True
            if flat:
                # no expansion correlation: armi refuses, loudly, to give hot dimensions of such a
                # material (RuntimeError in getThermalExpansionFactor); not a subject of this law
                NO_CORRELATION.append(nm)
                continue
        # a temperature of the valid range at which the correlation is exactly zero (its reference point)
        zero_t = None
        if not fluidish:
            cands = [25.0, 26.85, 20.0, 21.11, 19.85, 0.0]
            for key, (rng_, unit) in pv.items():
                if "expansion" in key and "volumetric" not in key:
                    cands.insert(0, float(rng_[0]) - (273.15 if unit == "K" else 0.0))
            for T in cands:
                inside = all(
                    (float(r_[0]) - (273.15 if u_ == "K" else 0.0)) <= T + 1e-9
                    for k_, (r_, u_) in pv.items()
                    if "expansion" in k_ and "volumetric" not in k_
                )
                try:
                    if inside and m.linearExpansionPercent(Tc=T) == 0 and m.linearExpansionPercent(Tc=T + 150.0) != 0:
                        zero_t = T
                        break
                except Exception:  # noqa: BLE001
                    pass
        ZERO_T[nm] = zero_t
        if not fluidish and not any("expansion" in k_ and "volumetric" not in k_ for k_ in pv):
            try:
                m.linearExpansionPercent(Tc=0.0)
                NO_RANGE.add(nm)
            except Exception:  # noqa: BLE001
                pass
        out.append((nm, fluidish, (round(lo, 2), round(hi, 2))))
    _MATERIALS = sorted(out)
    return _MATERIALS


def prepare():
    material_table()


def gen_plan(rng, index, tier):
    mats = material_table()
    pair = index % (len(SHAPE_NAMES) * len(mats))
    shape = SHAPE_NAMES[pair % len(SHAPE_NAMES)]
    mname, fluidish, (lo, hi) = mats[(pair // len(SHAPE_NAMES)) % len(mats)]
    scale = rng.choice([0.5, 1.0, 1.0, 2.5])
    dims = {k: (v * scale if k not in ("mult", "nHoles") else v) for k, v in SHAPES[shape].items()}
    if shape == "Helix" and rng.random() < 0.5:
        dims["id"] = 0.4 * dims["od"]  # an annular wire
    tin = round(rng.uniform(lo, min(hi, lo + 0.3 * (hi - lo))), 2)
    npts = rng.randint(2, 8)
    path = [round(rng.uniform(lo, hi), 2) for _ in range(npts)]
    path2 = [round(rng.uniform(lo, hi), 2) for _ in range(rng.randint(0, 3))]
    cfg = {"shape": shape, "material": mname, "fluidish": fluidish, "range": [lo, hi], "dims": dims, "Tinput": tin, "Thot": round(rng.uniform(lo, hi), 2)}
    if ZERO_T.get(mname) is not None and rng.random() < 0.35:
        # the path passes through the temperature at which the material's correlation is exactly zero
        path.insert(rng.randrange(1, len(path) + 1), ZERO_T[mname])
    steps = [{"op": "temp", "T": t} for t in path]
    if rng.random() < 0.3:
        # a fine ramp: many tiny temperature steps (converging thermal-hydraulic iterations look like this)
        t0 = path[-1]
        dt = rng.choice([0.004, 0.0007, 0.02])
        n = rng.choice([50, 200])
        up = 1.0 if t0 + n * dt < hi else -1.0
        steps += [{"op": "temp", "T": round(t0 + up * dt * (j + 1), 6)} for j in range(n)]
        path2_end = steps[-1]["T"]
    else:
        path2_end = path[-1]
    # hot / cold dimension assignments along the way
    for _ in range(rng.randint(0, 2)):
        steps.insert(rng.randrange(len(steps) + 1), {"op": "setdim", "pick": rng.randrange(100), "factor": rng.choice([0.97, 1.02, 1.1]), "cold": rng.random() < 0.5})
    # questions asked along the way (the axial expansion changer, height factors ... ask for the
    # factor between two explicit temperatures): asking must not change any later answer
    for _ in range(rng.randint(0, 3)):
        fq = {"op": "factor", "T0": round(rng.uniform(lo, hi), 2), "Tc": rng.choice([None, None, round(rng.uniform(lo, hi), 2)])}
        if mname in NO_RANGE and rng.random() < 0.3:
            # zero degrees is a temperature like any other (where the material states no validity range)
            fq[rng.choice(["T0", "Tc"])] = 0.0
        steps.insert(rng.randrange(len(steps) + 1), fq)
    cfg["path2"] = path2 + [path2_end]
    cfg["sharedDict"] = rng.random() < 0.4
    cfg["pinDetail"] = rng.choice([None, None, "pin", "detail", "both"])
    cfg["linked"] = rng.random() < 0.6
    if rng.random() < 0.25:
        # an inner dimension that starts at nothing (a solid pin, an unbored plate) ...
        zeroed = [k for k in ("id", "ip", "lengthInner", "widthInner") if k in dims]
        if zeroed:
            for k in zeroed:
                dims[k] = 0.0
            cfg["zeroInner"] = True
    if cfg["linked"] and rng.random() < 0.4:
        # the companion's multiplicity follows the component's; the component's changes along the way
        cfg["linkMult"] = True
        steps.insert(rng.randrange(1, len(steps) + 1), {"op": "setmult", "mult": rng.choice([3, 19, 61])})
    if cfg["linked"] and rng.random() < 0.35:
        steps.insert(rng.randrange(0, max(1, len(steps) - 1)), {"op": "freeze"})
    if cfg["linked"] and rng.random() < 0.5:
        # a hot (or cold) value assigned *through* the companion's link, keeping the link
        steps.insert(rng.randrange(1, len(steps) + 1), {"op": "setdim_link", "factor": rng.choice([0.98, 1.03]), "cold": rng.random() < 0.4})
    if not fluidish and rng.random() < 0.3:
        # at the end of the path the component is given another solid material (a design variant
        # re-uses the model) and is taken to two more temperatures inside both materials' ranges
        solids = [(n, r) for n, fl, r in mats if not fl and n != mname]
        n2, (lo2, hi2) = solids[rng.randrange(len(solids))]
        a, b = max(lo, lo2), min(hi, hi2)
        if b - a > 50.0:
            cfg["swap"] = {"to": n2, "T1": round(rng.uniform(a, b), 2), "T2": round(rng.uniform(a, b), 2)}
    return {"config": cfg, "steps": steps}


def simplify(plan):
    cfg = plan["config"]
    if cfg.get("linked"):
        p = copy.deepcopy(plan)
        p["config"]["linked"] = False
        yield p
    if len(cfg.get("path2", [])) > 1:
        p = copy.deepcopy(plan)
        p["config"]["path2"] = cfg["path2"][-1:]
        yield p


def rel(a, b, tol=TOL):
    return abs(a - b) <= tol * max(abs(a), abs(b), 1e-300)


def build(cfg, name="c"):
    from armi.reactor import components

    K = getattr(components, cfg["shape"])
    return K(name, cfg["material"], Tinput=cfg["Tinput"], Thot=cfg["Thot"], **cfg["dims"])


def lin_factor(c, T, T0):
    """Independent of Component: straight from the material's percent correlation."""
    m = c.material
    return (1.0 + m.linearExpansionPercent(Tc=T) / 100.0) / (1.0 + m.linearExpansionPercent(Tc=T0) / 100.0)


def mass_per_height(c):
    from armi.utils import densityTools

    nd = {k: float(v) for k, v in c.getNumberDensities().items()}
    return float(c.getArea()) * densityTools.calculateMassDensity(nd)


def execute(plan):
    cfg = plan["config"]
    log = kernel.EventLog()
    findings = driver.load_findings()
    known = {}
    probes = {}

    def fail(oracle, msg, **det):
        det.update({"shape": cfg["shape"], "material": cfg["material"]})
        f = driver.match_finding(findings, PROPERTY, {"oracle": oracle, "detail": det})
        if f is not None:
            known[f["id"]] = known.get(f["id"], 0) + 1
            return
        raise OracleFailure(oracle, f"{cfg['shape']} of {cfg['material']} (Tinput {cfg['Tinput']}): {msg}", det)

    c = build(cfg)
    te_dims = sorted(d for d in type(c).THERMAL_EXPANSION_DIMS if d in c.DIMENSION_NAMES and c.p[d] is not None)
    fluidish = cfg["fluidish"]
    nonzero = bool(c.getNumberDensities()) and sum(float(v) for v in c.getNumberDensities().values()) > 0
    if not nonzero and not fluidish:
        # a library solid without a reference composition: the user supplies one; the density law
        # (number densities follow 1/factor^2) holds for it like for any other solid
        c.setNumberDensities({"FE56": 0.04, "NI58": 0.011})
        nonzero = True
        probes["explicit_composition"] = 1
    companion = film = None
    frozen = [None]
    if cfg.get("linked") and te_dims:
        from armi.reactor.components import Circle

        d0 = te_dims[0]
        # a dimension linked to another component, declared the way blueprints do ("name.dim")
        companion = Circle("linked", "HT9", Tinput=25.0, Thot=25.0, od=1000.0, id=f"c.{d0}", mult="c.mult" if cfg.get("linkMult") else 1)
        companion.resolveLinkedDims({"c": c})
        # ... and a third one linked to the companion's linked dimension (a chain of two links)
        film = Circle("film", "HT9", Tinput=25.0, Thot=25.0, od=2000.0, id="linked.id", mult=1)
        film.resolveLinkedDims({"linked": companion, "c": c})
    # a second component of the same design that received its composition from the same dict (an
    # enrichment-zoning loop does that); it stays at its temperature while the first one moves
    twin = comp_dict = twin_nd0 = None
    if nonzero and not fluidish and cfg.get("sharedDict"):
        comp_dict = {k: float(v) for k, v in c.getNumberDensities().items()}
        twin = build(cfg, "twin")
        c.setNumberDensities(comp_dict)
        twin.setNumberDensities(comp_dict)
        comp_dict0 = dict(comp_dict)
        twin_nd0 = {k: float(v) for k, v in twin.getNumberDensities().items()}
        probes["composition_dict_shared_by_two_components"] = 1
    # pin-wise and detailed number densities (set by depletion); they are number densities too
    pin0 = det0 = None
    if nonzero and not fluidish and cfg.get("pinDetail"):
        import numpy as np

        c.setTemperature(cfg["Tinput"])
        if cfg["pinDetail"] in ("pin", "both"):
            c.p.pinNDens = np.array([[0.01, 0.002], [0.011, 0.0021], [0.012, 0.0022]])
            pin0 = c.p.pinNDens.copy()
        if cfg["pinDetail"] in ("detail", "both"):
            c.p.detailedNDens = np.array([0.013, 0.0003, 0.00007])
            det0 = c.p.detailedNDens.copy()
        probes["pin_or_detailed_number_densities_set"] = 1
    mph0 = mass_per_height(c) if nonzero else None
    cold = {d: float(c.getDimension(d, cold=True)) for d in te_dims}
    cold_area = float(c.getArea(cold=True))
    nd_in = None
    # reference densities at the input temperature
    c.setTemperature(cfg["Tinput"])
    nd_in = {k: float(v) for k, v in c.getNumberDensities().items()}
    area_in = float(c.getArea())
    temps = set()
    cold_changed = False

    def check(tag):
        T = float(c.temperatureInC)
        f = 1.0 if fluidish else lin_factor(c, T, cfg["Tinput"])
        for d in te_dims:
            want = cold[d] * f
            got = float(c.getDimension(d))
            if not rel(got, want):
                fail("C03.dimension", f"{tag}: {d} at {T} C is {got}, cold value x linear factor = {want}", what="fluid-moved" if fluidish else "factor", dim=d)
        if fluidish:
            return
        if not cold_changed:
            a = float(c.getArea())
            if cold_area > 0 and not rel(a / cold_area, f * f, 1e-9):
                fail("C03.area", f"{tag}: area ratio hot/cold at {T} C is {a / cold_area}, (linear factor)^2 = {f * f}", what="area")
            if nonzero:
                for nuc, v in nd_in.items():
                    if v > 0:
                        got = float(c.getNumberDensities().get(nuc, 0.0))
                        if not rel(got * f * f, v, 1e-9):
                            fail("C03.density", f"{tag}: number density of {nuc} at {T} C is {got}, input-temperature value / factor^2 = {v / (f * f)}", what="density")
                        break
                mph = mass_per_height(c)
                if not rel(mph, mph_ref[0], 1e-9):
                    fail("C03.mass", f"{tag}: mass per unit height at {T} C is {mph}, was {mph_ref[0]}", what="mass-per-height")
        if not cold_changed:
            import numpy as np

            for nm, v0 in (("pinNDens", pin0), ("detailedNDens", det0)):
                if v0 is not None:
                    got = np.asarray(c.p[nm], dtype=float)
                    if not np.allclose(got * f * f, v0, rtol=2e-5, atol=0.0):  # (armi keeps these arrays in single precision; ramps of 200 steps accumulate that)
                        fail("C03.density", f"{tag}: {nm} at {T} C is {got.ravel()[:3]}, input-temperature values / factor^2 = {(v0 / (f * f)).ravel()[:3]}", what=nm)
        if twin is not None:
            for nuc, v in twin_nd0.items():
                if not rel(float(twin.getNumberDensities().get(nuc, 0.0)), v, 1e-12):
                    fail("C03.density", f"{tag}: the number density of {nuc} in another component (same composition dict at construction, temperature untouched) changed from {v} to {float(twin.getNumberDensities().get(nuc, 0.0))}", what="other-component")
                    break
            if comp_dict != comp_dict0:
                fail("C03.density", f"{tag}: the caller's composition dict was changed by armi", what="caller-dict")
        if companion is not None:
            got = float(companion.getDimension("id"))
            want = float(c.getDimension(te_dims[0])) if frozen[0] is None else frozen[0]
            if not rel(got, want):
                if frozen[0] is None:
                    fail("C03.link", f"{tag}: dimension linked to {te_dims[0]} reads {got}, the target's current value is {want}", what="link")
                else:
                    fail("C03.setdim", f"{tag}: a dimension that was given its own value {want} (in place of a link) reads {got}", what="unlinked-value")
            if cfg.get("linkMult"):
                gm, wm = float(companion.getDimension("mult")), float(c.getDimension("mult"))
                if gm != wm:
                    fail("C03.link", f"{tag}: the multiplicity linked to the component's reads {gm}, the component's is {wm}", what="link-mult")
            got2 = float(film.getDimension("id"))
            if not rel(got2, got):
                fail("C03.link", f"{tag}: a dimension linked to the companion's dimension reads {got2}, the companion's current value is {got}", what="chain")

    mph_ref = [mass_per_height(c) if nonzero else None]
    _ = (mph0, area_in)
    check("at input temperature")
    def keeps_geometry_valid(d, newv, is_cold):
        """A generated assignment may push an inner dimension past the outer one; such a step is not
        a well-formed input (armi refuses to compute a negative area) and is skipped."""
        import copy

        trial = copy.deepcopy(c)
        trial.setDimension(d, newv, cold=is_cold)
        try:
            return float(trial.getArea(cold=True)) > 0 and float(trial.getArea()) > 0
        except ArithmeticError:
            return False

    for k, st in enumerate(plan["steps"]):
        if st["op"] == "temp":
            c.setTemperature(st["T"])
            temps.add(st["T"])
            log.add("temp", st["T"])
            check(f"step {k}")
        elif st["op"] == "factor":
            if fluidish:
                continue
            Tc = st.get("Tc")
            got = float(c.getThermalExpansionFactor(Tc=Tc, T0=st["T0"]))
            want = lin_factor(c, float(c.temperatureInC) if Tc is None else Tc, st["T0"])
            if not rel(got, want, 1e-12):
                fail("C03.dimension", f"step {k}: expansion factor from {st['T0']} C to {Tc if Tc is not None else c.temperatureInC} C is {got}, the material's correlation gives {want}", what="factor-query")
            probes["factor_queries"] = probes.get("factor_queries", 0) + 1
            if Tc is not None:
                # the area asked for an explicit temperature is the cold area grown to that temperature
                got_a = float(c.getArea(Tc=Tc))
                want_a = float(c.getArea(cold=True)) * lin_factor(c, Tc, float(c.inputTemperatureInC)) ** 2
                if not rel(got_a, want_a, 1e-10):
                    fail("C03.dimension", f"step {k}: getArea(Tc={Tc}) = {got_a}, the cold area grown by the material's factor to that temperature is {want_a}", what="area-at-Tc")
                probes["area_queries_at_explicit_temperature"] = probes.get("area_queries_at_explicit_temperature", 0) + 1
            log.add("factor", st["T0"], Tc)
            check(f"step {k} (after asking for the factor from {st['T0']} C)")
        elif st["op"] == "setmult":
            c.setDimension("mult", st["mult"])
            probes["multiplicity_changed_under_a_link"] = 1
            log.add("setmult", st["mult"])
            mph_ref[0] = mass_per_height(c) if nonzero else None
            cold_changed = True
            check(f"step {k} (after the multiplicity was changed)")
        elif st["op"] == "freeze":
            # the companion's linked dimension is given a value of its own: exactly what it reads now
            if companion is None or frozen[0] is not None:
                continue
            v = float(companion.getDimension("id"))
            companion.setDimension("id", v, cold=False)
            frozen[0] = v
            probes["link_replaced_by_its_current_value"] = 1
            log.add("freeze", v)
            check(f"step {k} (after the link was replaced by its current value)")
        elif st["op"] == "setdim_link":
            if companion is None or fluidish or frozen[0] is not None:
                continue
            d = te_dims[0]
            newv = (cold[d] if st["cold"] else float(c.getDimension(d))) * st["factor"]
            if not keeps_geometry_valid(d, newv, st["cold"]):
                probes["dimension_assignments_skipped_invalid"] = probes.get("dimension_assignments_skipped_invalid", 0) + 1
                continue
            companion.setDimension("id", newv, retainLink=True, cold=st["cold"])
            got_t = float(c.getDimension(d, cold=st["cold"]))
            got_l = float(companion.getDimension("id", cold=st["cold"]))
            if not rel(got_t, newv) or not rel(got_l, newv):
                fail("C03.setdim", f"step {k}: setDimension through the link ({'cold' if st['cold'] else 'hot'} value {newv}) reads back {got_l} on the linking component and {got_t} on the target", what="through-link")
            cold[d] = float(c.getDimension(d, cold=True))
            cold_changed = True
            mph_ref[0] = mass_per_height(c) if nonzero else None
            probes["dimension_assignments_through_link"] = probes.get("dimension_assignments_through_link", 0) + 1
            log.add("setdim_link", st["factor"], st["cold"])
            check(f"step {k} (after setDimension through the link)")
        else:
            if not te_dims:
                continue
            d = te_dims[st["pick"] % len(te_dims)]
            newv = (cold[d] if st["cold"] else float(c.getDimension(d))) * st["factor"]
            if not keeps_geometry_valid(d, newv, st["cold"]):
                probes["dimension_assignments_skipped_invalid"] = probes.get("dimension_assignments_skipped_invalid", 0) + 1
                continue
            if st["cold"]:
                newv = cold[d] * st["factor"]
                c.setDimension(d, newv, cold=True)
                got = float(c.getDimension(d, cold=True))
                if not rel(got, newv):
                    fail("C03.setdim", f"step {k}: setDimension({d}, {newv}, cold) reads back {got}", what="cold")
                cold[d] = newv
            else:
                newv = float(c.getDimension(d)) * st["factor"]
                if newv == 0.0:
                    # the dimension holds nothing yet: it gets a hot value of its own (a bore a quarter of the largest dimension)
                    newv = 0.25 * max(float(c.getDimension(x)) for x in te_dims) * st["factor"]
                    if not keeps_geometry_valid(d, newv, False):
                        continue
                    probes["hot_value_for_a_dimension_that_was_zero"] = 1
                c.setDimension(d, newv, cold=False)
                got = float(c.getDimension(d))
                if not rel(got, newv):
                    fail("C03.setdim", f"step {k}: setDimension({d}, {newv}, hot) reads back {got}", what="hot")
                cold[d] = float(c.getDimension(d, cold=True))
            cold_changed = True  # geometry redefined: the area/density laws restart from here
            probes["dimension_assignments"] = probes.get("dimension_assignments", 0) + 1
            log.add("setdim", d, st["factor"], st["cold"])
            check(f"step {k} (after setDimension)")
    # path independence: a fresh identical component taken along another path to the same end temperature
    if not any(s["op"] in ("setdim", "setdim_link", "setmult") for s in plan["steps"]):  # ("factor" steps change nothing)
        c2 = build(cfg, "c2")
        if probes.get("explicit_composition"):
            c2.setNumberDensities({"FE56": 0.04, "NI58": 0.011})
        c2.setTemperature(cfg["Tinput"])
        # another way to the temperature the first component ended at (whatever steps a minimised
        # plan still has)
        for t in cfg["path2"][:-1] + [float(c.temperatureInC)]:
            c2.setTemperature(t)
        if not rel(float(c.getArea()), float(c2.getArea())):
            fail("C03.path", f"two paths to {float(c.temperatureInC)} C give areas {float(c.getArea())} and {float(c2.getArea())}", what="area")
        n1, n2 = c.getNumberDensities(), c2.getNumberDensities()
        for nuc in n1:
            if not rel(float(n1[nuc]), float(n2.get(nuc, 0.0)), 1e-9):
                fail("C03.path", f"two paths to {float(c.temperatureInC)} C give different number densities of {nuc}: {float(n1[nuc])} vs {float(n2.get(nuc, 0.0))}", what="density")
                break
        probes["path_independence_checked"] = 1
    sw = cfg.get("swap")
    if sw and nonzero and not fluidish:
        from armi.materials import resolveMaterialClassByName

        # the law restarts at the replacement: from there on the new material's factor governs
        c.setTemperature(sw["T1"])
        c.setProperties(resolveMaterialClassByName(sw["to"])())
        mph1 = mass_per_height(c)
        nd1 = {k: float(v) for k, v in c.getNumberDensities().items()}
        area1 = float(c.getArea())
        c.setTemperature(sw["T2"])
        f12 = lin_factor(c, sw["T2"], sw["T1"])
        tag = f"after the material was replaced by {sw['to']} at {sw['T1']} C, at {sw['T2']} C"
        if area1 > 0 and not rel(float(c.getArea()) / area1, f12 * f12, 1e-9):
            fail("C03.area", f"{tag}: area ratio is {float(c.getArea()) / area1}, (linear factor of the new material)^2 = {f12 * f12}", what="area-after-replacement")
        for nuc, v in nd1.items():
            if v > 0:
                got = float(c.getNumberDensities().get(nuc, 0.0))
                if not rel(got * f12 * f12, v, 1e-9):
                    fail("C03.density", f"{tag}: number density of {nuc} is {got}, value at the replacement / factor^2 = {v / (f12 * f12)}", what="density-after-replacement")
                break
        if not rel(mass_per_height(c), mph1, 1e-9):
            fail("C03.mass", f"{tag}: mass per unit height is {mass_per_height(c)}, was {mph1} at the replacement", what="mass-per-height-after-replacement")
        probes["material_replaced_between_temperature_steps"] = 1
    probes["fluid_or_custom" if fluidish else "solid"] = 1
    if not nonzero:
        probes["material_without_composition"] = 1
    q = tuple(round(t / 25.0) for t in sorted(temps))
    return kernel.result(
        kernel.PASS,
        digest=log.digest(),
        nevents=len(log),
        stats={"path_points": len(temps)},
        probes=probes,
        known=known,
        sim={"path_points": len(temps)},
        sig=kernel.digest([cfg["shape"], cfg["material"], q])[:16],
        nontrivial=(nonzero or fluidish) and len(temps) >= 2,
        pair=f"{cfg['shape']}/{cfg['material']}",
    )
