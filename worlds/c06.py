"""C06 — database snapshots are isolated, complete, queryable and survive aborted runs.

Model = a write log: every time Database.writeToDB returns (the acknowledgement), the simulator
records (life, cycle, node, label, content hash of the new group, sentinel value of every object
keyed by serial number, location of every object).  Oracles run on the file found in the working
directory after each life (first run, restart) and in a post-mortem reader.
"""
import copy
import os

from models import schedule
from sim import armiboot, kernel
from sim.kernel import OracleFailure
from worlds import enginea

PROPERTY = "C06"
WORLD = "A"
RULE = (
    "one run = first life (+ optional abort at a seed-chosen hook/stack position/cycle/node) "
    "[+ restart life at a seed-chosen node, with its own optional abort] + reader; actors assign a "
    "unique sentinel per step to seed-chosen objects, shuffle through the real fuel handler, try "
    "duplicate writes; distinct = hash of (reactor kind, sequence of (life, hook, actor position, op "
    "kind) of fired steps, abort point class, restart point, number of snapshots); non-trivial = at "
    "least one state-changing step fired between two acknowledged writes or an abort fired"
)
REAL = [
    "Operator + interface stack",
    "MainInterface (DB open, restart preparation, nested EOC replay)",
    "DatabaseInterface / Database / Layout / h5py on a real file",
    "FuelHandlerInterface + FuelHandler.swapAssemblies (plan-driven chooseSwaps)",
    "HistoryTrackerInterface",
    "Operator.__exit__ -> interactAllError",
    "Database.mergeHistory / splitDatabase / getHistories / getHistoriesByLocation / genTimeSteps / hasTimeStep / load",
    "safeMove / safeCopy poll loops (against SimOS)",
    "blueprints -> reactor (one-assembly test reactor and generated 7-assembly hex cores)",
]
STUB = ["physics (sim actors)", "wall clock (virtual)", "mv/cp (SimOS with lagging completion)", "git describe", "lscpu banner", "MPI (absent)"]
ASSUMPTIONS = [
    "single failure per life (as the quantifier says); failures are exceptions that run the error hooks, not kill -9",
    "HDF5 performs its I/O in C: torn writes inside the h5 file are not injected",
    "filesystem latency stays below armi's own time-outs",
    "history values at a (cycle,node) that holds several labelled snapshots may be any of those snapshots' values",
]
TIERS = {"quick": (64, 80, 150), "thorough": (4000, 600, 240)}

ORDERS_BEFORE_DB = [1.5, 2.5, 4.5, 6.5, 10.5]
ORDERS_AFTER_DB = [11.5, 12.5]
HOOK_KINDS = ["BOL", "BOC", "EveryNode", "EOC", "EOL", "Coupled"]


# -------------------------------------------------------------------------------------------------
def _points(hist, coupling, maxit):
    """All (hook, cycle, node, iter) interaction points of a fresh standard run."""
    pts = [("BOL", None, None, None)]
    for c, bs in enumerate(hist["burnSteps"]):
        pts.append(("BOC", c, None, None))
        for n in range(bs + 1):
            pts.append(("EveryNode", c, n, None))
            if coupling:
                for it in range(maxit):
                    pts.append(("Coupled", c, n, it))
        pts.append(("EOC", c, None, None))
    pts.append(("EOL", None, None, None))
    return pts


def _mk_step(life, actor, pt, op, **kw):
    hook, c, n, it = pt
    s = {"life": life, "actor": actor, "hook": hook, "op": op}
    if c is not None:
        s["cycle"] = c
    if n is not None:
        s["node"] = n
    if it is not None:
        s["iter"] = it
    s.update(kw)
    return s


def gen_plan(rng, index, tier):
    n = rng.choice([1, 2, 2, 3])
    bs = rng.choice([1, 1, 2, 3])
    st = {"nCycles": n, "burnSteps": bs, "cycleLength": rng.choice([10.0, 100.0]), "availabilityFactor": 1.0}
    hist = schedule.expand_history(st)
    cfg = {"settings": st, "fs_latencies": [rng.choice([0, 0, 0, 0.03, 0.5, 20.0]) for _ in range(rng.randint(0, 8))]}
    if rng.random() < 0.6:
        cfg["reactor"] = "gen"
        cfg["blueprint"] = {"rings": 2, "symmetry": "full", "nfuel": rng.choice([1, 2]), "plate": rng.random() < 0.5, "sfp": True}
        cfg["fuelHandler"] = True
        if cfg["blueprint"]["plate"]:
            st["stationaryBlockFlags"] = ["GRID_PLATE"]
        if rng.random() < 0.2:
            cfg["blueprint"].update({"geom": "cartesian", "symmetry": rng.choice(["full", "quarter reflective through center assembly"])})
    else:
        cfg["reactor"] = "smallest"
    coupling = rng.random() < 0.25
    maxit = 1
    if coupling:
        maxit = rng.randint(1, 3)
        st["tightCoupling"] = True
        st["tightCouplingMaxNumIters"] = maxit
        if rng.random() < 0.4:
            st["cyclesSkipTightCouplingInteraction"] = sorted(rng.sample(range(n), rng.randint(1, n)))
    if rng.random() < 0.25:
        st["syncAfterWrite"] = False
    rng.random()  # (debugDB is not part of the swarm: see DESIGN.md section 10)
    nact = rng.choice([2, 3, 3, 4])
    actors = []
    for k in range(nact):
        after = k == nact - 1 or rng.random() < 0.25
        a = {
            "name": f"sim{k}",
            "order": rng.choice(ORDERS_AFTER_DB if after else ORDERS_BEFORE_DB),
            "function": f"simf{k}",
            "kwargs": {"enabled": True, "bolForce": False, "reverseAtEOL": rng.random() < 0.2},
        }
        actors.append(a)
    if coupling:
        tcs = {}
        for a in actors[:2]:
            tcs[a["function"]] = {"parameter": "power", "convergence": 0.5}
            a["conv"] = {f"{c},{nd}": [False] * rng.choice([0, 1, 5]) + [True] for c in range(n) for nd in range(bs + 1) if rng.random() < 0.6}
        st["tightCouplingSettings"] = tcs
    cfg["actors"] = actors
    pts = _points(hist, coupling, maxit)
    steps = []
    nsteps = rng.randint(3, 14)
    val = 1000
    for _ in range(nsteps):
        a = rng.choice(actors)
        pt = rng.choice(pts)
        val += 1
        steps.append(_mk_step(0, a["name"], pt, "set", level=rng.choice(["reactor", "core", "assembly", "block", "block", "component"]), idx=rng.randrange(1000), value=float(val) + 0.5))
    if cfg.get("fuelHandler"):
        for c in range(n):
            for _ in range(rng.choice([0, 1, 2])):
                steps.append({"life": 0, "actor": "fuelHandler", "hook": "BOC", "cycle": c, "op": "swap", "a": rng.randrange(1000), "b": rng.randrange(1000)})
    if cfg.get("fuelHandler") and n >= 2 and rng.random() < 0.3:
        # an assembly is purged and its position recharged in a later cycle: the position is empty in between
        c1 = rng.randrange(n - 1)
        steps.append({"life": 0, "actor": "fuelHandler", "hook": "BOC", "cycle": c1, "op": "purge", "a": rng.randrange(1000)})
        if rng.random() < 0.8:
            steps.append({"life": 0, "actor": "fuelHandler", "hook": "BOC", "cycle": rng.randrange(c1 + 1, n), "op": "charge", "a": 0})
    if cfg.get("fuelHandler") and cfg["blueprint"].get("sfp") and rng.random() < 0.35:
        # discharge one assembly for a fresh one: objects are born in the middle of the run
        for c in sorted(rng.sample(range(n), min(n, rng.choice([1, 2])))):
            steps.append({"life": 0, "actor": "fuelHandler", "hook": "BOC", "cycle": c, "op": "discharge", "a": rng.randrange(1000)})
        st["trackAssems"] = rng.random() < 0.6
        late = [p for p in pts if p[0] in ("EveryNode", "EOC") and p[1] >= max(1, min(s_["cycle"] for s_ in steps if s_["op"] == "discharge"))]
        if late and rng.random() < 0.7:
            # ... and a reader that loads the first snapshot (older than those objects) after that
            steps.append(_mk_step(0, rng.choice(actors)["name"], rng.choice(late), "peek", load=True))
    # duplicate write: only meaningful in an actor behind the database interface at EveryNode
    behind = [a for a in actors if a["order"] > 11.0]
    if behind and not coupling and rng.random() < 0.4:
        c = rng.randrange(n)
        steps.append(_mk_step(0, rng.choice(behind)["name"], ("EveryNode", c, rng.randrange(bs + 1), None), "dupwrite"))
    if rng.random() < 0.3:
        # a labelled snapshot written by an interface (before the node's own snapshot exists), twice
        val += 1
        steps.append(_mk_step(0, rng.choice(actors)["name"], rng.choice([p for p in pts if p[0] in ("EveryNode", "BOC", "EOC")] or pts), "dupmark", u=val))
    for _ in range(rng.choice([0, 0, 1, 2])):
        # a reader peeking at the shared copy in the working directory in the middle of the run
        steps.append(_mk_step(0, rng.choice(actors)["name"], rng.choice(pts), "peek", load=rng.random() < 0.6))
    before = [a for a in actors if a["order"] < 11.0]
    if behind and before and not coupling and rng.random() < 0.35:
        # the history tracker is asked about the current node before the database writes it and, by
        # an interface behind the database, after it was written and the block has changed again
        c = rng.randrange(n)
        nd = rng.randrange(bs + 1)
        idx = rng.randrange(1000)
        val += 1
        steps.append(_mk_step(0, rng.choice(before)["name"], ("EveryNode", c, nd, None), "htquery", idx=idx))
        b2 = rng.choice(behind)["name"]
        steps.append(_mk_step(0, b2, ("EveryNode", c, nd, None), "set", level="block", idx=idx, value=float(val) + 0.5))
        steps.append(_mk_step(0, b2, ("EveryNode", c, nd, None), "htquery", idx=idx))
    if rng.random() < 0.35:
        # an interface that asks the database interface for the history so far, several times
        for _ in range(rng.randint(2, 4)):
            steps.append(_mk_step(0, rng.choice(actors)["name"], rng.choice([p for p in pts if p[0] in ("EveryNode", "EOC", "BOC")] or pts), "dbihist"))
    if rng.random() < 0.12:
        # a halt request at BOC: the run stops there, end-of-life still runs (and writes)
        steps.append(_mk_step(0, rng.choice(actors)["name"], ("BOC", rng.randrange(n), None, None), "halt"))
    if rng.random() < 0.3:
        steps.append(_mk_step(0, rng.choice(actors)["name"], rng.choice(pts), "clockjump", dt=rng.choice([-7200.0, 3600.0, 1e6])))
    # single failure of life 0, biased towards the hooks next to the database interface and shuffles
    if rng.random() < 0.6:
        a = rng.choice(actors)
        pt = rng.choice(pts)
        if rng.random() < 0.3:
            pt = rng.choice([p for p in pts if p[0] in ("EOL", "EOC", "BOC")])
        steps.append(_mk_step(0, a["name"], pt, "abort", kind=rng.choice(list(enginea.ABORT_KINDS))))
    # restart life
    if rng.random() < (0.55 if tier == "quick" else 0.7):
        cfg["restart"] = {"pick": rng.randrange(1000)}
        for _ in range(rng.randint(0, 6)):
            a = rng.choice(actors)
            val += 1
            steps.append(_mk_step(1, a["name"], rng.choice(pts), "set", level=rng.choice(["core", "assembly", "block", "component"]), idx=rng.randrange(1000), value=float(val) + 0.5))
        if rng.random() < 0.35:
            pt = rng.choice(pts)
            steps.append(_mk_step(1, rng.choice(actors)["name"], pt, "abort", kind=rng.choice(list(enginea.ABORT_KINDS))))
        if cfg.get("fuelHandler") and rng.random() < 0.5:
            steps.append({"life": 1, "actor": "fuelHandler", "hook": "BOC", "cycle": rng.randrange(n), "op": "swap", "a": rng.randrange(1000), "b": rng.randrange(1000)})
    cfg["reader"] = {"loads": rng.randint(1, 3), "hist_objs": rng.randint(1, 4), "pick": rng.randrange(10**6), "split": rng.random() < 0.5, "postLoad": rng.random() < 0.3}
    if cfg["reader"]["split"] and cfg.get("fuelHandler") and n >= 2:
        # (the split oracle will keep the last cycle only and ask the split object for histories:
        # make sure the order of the assemblies differs between the first and the last cycle)
        for _ in range(2):
            steps.append({"life": 0, "actor": "fuelHandler", "hook": "BOC", "cycle": n - 1, "op": "swap", "a": rng.randrange(1000), "b": rng.randrange(1000)})
    if rng.random() < 0.1:
        # separately-oracled configuration (DESIGN.md 3.6): the N-th dataset creation after a plan-chosen
        # hook fails with ENOSPC, i.e. the failure is inside the database writer itself
        cfg["diskfull"] = True
        steps = [s for s in steps if s["op"] != "abort" and s.get("life", 0) == 0]
        cfg.pop("restart", None)
        steps.append(_mk_step(0, rng.choice(actors)["name"], rng.choice([p for p in pts if p[0] in ("BOC", "EveryNode", "EOC")]), "enospc", nth=rng.randint(1, 60)))
    elif cfg.get("fuelHandler") and cfg["blueprint"].get("sfp") and n >= 2 and st.get("syncAfterWrite", True) and rng.random() < 0.3:
        # scenario "born, then an older snapshot is loaded": a fresh assembly arrives at the start of
        # a later cycle, then a reader loads the run's first snapshot in the process of the run
        c = rng.randrange(1, n)
        steps = [s for s in steps if not (s.get("life", 0) == 0 and s["op"] in ("abort", "halt"))]
        steps.append({"life": 0, "actor": "fuelHandler", "hook": "BOC", "cycle": c, "op": "discharge", "a": rng.randrange(1000)})
        steps.append(_mk_step(0, rng.choice(actors)["name"], ("EveryNode", c, rng.randrange(bs + 1), None), "peek", load=True))
    return {"config": cfg, "steps": steps}


def simplify(plan):
    cfg = plan["config"]
    if cfg.get("restart"):
        p = copy.deepcopy(plan)
        p["config"].pop("restart")
        p["steps"] = [s for s in p["steps"] if s.get("life", 0) == 0]
        yield p
    if cfg.get("fs_latencies"):
        p = copy.deepcopy(plan)
        p["config"]["fs_latencies"] = []
        yield p
    st = cfg["settings"]
    if st.get("tightCoupling"):
        p = copy.deepcopy(plan)
        for k in ("tightCoupling", "tightCouplingMaxNumIters", "tightCouplingSettings", "cyclesSkipTightCouplingInteraction"):
            p["config"]["settings"].pop(k, None)
        for a in p["config"]["actors"]:
            a.pop("conv", None)
        p["steps"] = [s for s in p["steps"] if s["hook"] != "Coupled"]
        yield p
    for k in ("debugDB", "syncAfterWrite"):
        if k in st:
            p = copy.deepcopy(plan)
            p["config"]["settings"].pop(k)
            yield p
    if cfg.get("reactor") == "gen" and not any(s["op"] == "swap" for s in plan["steps"]):
        p = copy.deepcopy(plan)
        p["config"]["reactor"] = "smallest"
        p["config"].pop("blueprint", None)
        p["config"].pop("fuelHandler", None)
        p["config"]["settings"].pop("stationaryBlockFlags", None)
        yield p
    if st["nCycles"] > 1:
        p = copy.deepcopy(plan)
        p["config"]["settings"]["nCycles"] -= 1
        yield p
    if st["burnSteps"] > 1:
        p = copy.deepcopy(plan)
        p["config"]["settings"]["burnSteps"] -= 1
        yield p
    rd = cfg.get("reader", {})
    if rd.get("split"):
        p = copy.deepcopy(plan)
        p["config"]["reader"]["split"] = False
        yield p
    used = {s["actor"] for s in plan["steps"]}
    for k, a in enumerate(cfg["actors"]):
        if a["name"] not in used and len(cfg["actors"]) > 1:
            p = copy.deepcopy(plan)
            gone = p["config"]["actors"].pop(k)
            tcs = p["config"]["settings"].get("tightCouplingSettings")
            if tcs:
                tcs.pop(gone["function"], None)
            yield p
            break


# -------------------------------------------------------------------------------------------------
def all_objects(r):
    out = [r]
    out.extend(r.iterChildren(deep=True))
    return out


def objects_at_level(r, level):
    from armi.reactor import assemblies, blocks, components

    if level == "reactor":
        return [r]
    if level == "core":
        return [r.core]
    objs = []
    for o in r.core.iterChildren(deep=True):
        if level == "assembly" and isinstance(o, assemblies.Assembly):
            objs.append(o)
        elif level == "block" and isinstance(o, blocks.Block):
            objs.append(o)
        elif level == "component" and isinstance(o, components.Component):
            objs.append(o)
    return objs


def sentinel_map(r):
    m = {}
    for o in all_objects(r):
        try:
            v = o.p.vSent
        except AttributeError:  # ex-core containers carry the generic parameter collection
            continue
        m[int(o.p.serialNum)] = None if v is None else float(v)
    return m


def location_map(r):
    """serial -> (class name, complete indices or None) for objects below the core."""
    m = {}
    for o in r.core.iterChildren(deep=True):
        loc = o.spatialLocator
        try:
            idx = tuple(int(x) for x in loc.getCompleteIndices())
        except Exception:  # noqa: BLE001 - coordinate / multi locations
            idx = None
        m[int(o.p.serialNum)] = (type(o).__name__, idx)
    return m


def op_set(d, st, actor):
    r = actor.o.r
    objs = objects_at_level(r, st["level"])
    if not objs:
        return None
    o = objs[st["idx"] % len(objs)]
    o.p.vSent = st["value"]
    d.dirty = True
    d.nsets += 1
    return None


def op_htquery(d, st, actor):
    """An interface asks the history tracker for a block's value at the current node: the stored value
    once the node has been written, the live value before that."""
    o = actor.o
    ht = o.getInterface("history")
    dbi = o.getInterface("database")
    if ht is None or dbi is None or dbi._db is None or not dbi._db.isOpen():
        return None
    r = o.r
    blks = objects_at_level(r, "block")
    b = blks[st["idx"] % len(blks)]
    now = (int(r.p.cycle), int(r.p.timeNode))
    sn = int(b.p.serialNum)
    mine = [w for w in d.writes if w["life"] == d.life and (w["cycle"], w["node"]) == now and "sent" in w and sn in w["sent"]]
    live = None if b.p.vSent is None else float(b.p.vSent)
    allowed = [w["sent"][sn] for w in mine] if mine else [live]
    try:
        got = ht.getBlockHistoryVal(b.getName(), "vSent", now)
    except KeyError:
        return None  # (the tracker refuses names it does not know, e.g. of exchanged stationary blocks)
    got = None if got is None else float(got)
    if got not in allowed:
        raise OracleFailure("C06.history", f"history tracker at {now}: block serial {sn} vSent = {got}; " + (f"the node is written and holds {allowed}" if mine else f"the node is not written yet and the block holds {live}"), {"what": "tracker-value", "written": bool(mine)})
    d.probes["tracker_queries_written" if mine else "tracker_queries_unwritten"] += 1
    return None


def op_dupwrite(d, st, actor):
    """Write again for a (cycle,node) that already holds a snapshot, after changing state: must
    be refused and must leave the existing snapshot untouched."""
    o = actor.o
    dbi = o.getInterface("database")
    db = dbi._db
    if db is None or not db.isOpen():
        return None
    r = o.r
    name = f"c{int(r.p.cycle):02d}n{int(r.p.timeNode):02d}"
    if name not in db.h5db:
        return None
    before = enginea.h5_group_hash(db.h5db[name])
    r.core.p.vSent = -12345.5
    d.suppress_ack = True
    try:
        try:
            db.writeToDB(r)
        except Exception:  # noqa: BLE001 - the refusal
            d.probes["duplicate_write_refused"] += 1
            refused = True
        else:
            refused = False
    finally:
        d.suppress_ack = False
    after = enginea.h5_group_hash(db.h5db[name])
    if not refused or before != after:
        raise OracleFailure(
            "C06.overwrite",
            f"second write for {name} was {'accepted' if not refused else 'refused'} and the existing snapshot {'changed' if before != after else 'is unchanged'}",
            {"refused": refused, "changed": before != after},
        )
    # put the sentinel back so that the log stays the single source of truth
    r.core.p.vSent = d.last_core_sent
    return None


def op_dupmark(d, st, actor):
    """A labelled snapshot is written (acknowledged, so it belongs to the file from now on) and then
    written a second time: the second write is refused and the first stays what it was."""
    o = actor.o
    dbi = o.getInterface("database")
    db = dbi._db if dbi is not None else None
    if db is None or not db.isOpen():
        return None
    r = o.r
    label = f"mark{st['u']}"
    name = f"c{int(r.p.cycle):02d}n{int(r.p.timeNode):02d}{label}"
    if name in db.h5db:
        return None
    db.writeToDB(r, label)
    before = enginea.h5_group_hash(db.h5db[name])
    d.suppress_ack = True
    try:
        try:
            db.writeToDB(r, label)
        except Exception:  # noqa: BLE001 - the refusal
            refused = True
        else:
            refused = False
    finally:
        d.suppress_ack = False
    present = name in db.h5db
    if not refused or not present or enginea.h5_group_hash(db.h5db[name]) != before:
        raise OracleFailure("C06.overwrite", f"second write of the labelled snapshot {name} was {'accepted' if not refused else 'refused'}; the first one is {'gone' if not present else 'still there'}", {"refused": refused, "present": present, "what": "labelled"})
    d.probes["duplicate_labelled_write_refused"] += 1
    return None


def op_peek(d, st, actor):
    """A reader opens the copy in the working directory mid-run: it must open, be marked
    unfinished, and hold every snapshot that was acknowledged before the last completed sync."""
    import h5py

    title = actor.o.cs.caseTitle
    path = os.path.join(d.scratch, title + ".h5")
    if not os.path.exists(path) or not d.synced_upto.get(d.life):
        return None
    d.probes["midrun_peeks"] += 1
    try:
        f = h5py.File(path, "r")
    except Exception as e:  # noqa: BLE001
        raise OracleFailure("C06.midrun", f"the shared copy does not open in the middle of the run: {e}", {"what": "unopenable"})
    try:
        dbi = actor.o.getInterface("database")
        finalised = dbi is None or dbi._db is None or not dbi._db.isOpen()
        if not finalised and bool(f.attrs.get("successfulCompletion", False)):
            raise OracleFailure("C06.midrun", "the shared copy is marked successfully completed in the middle of the run", {"what": "flag"})
        n = d.synced_upto[d.life]
        for w in [w for w in d.writes if w["life"] == d.life][:n]:
            if w["name"] not in f:
                raise OracleFailure("C06.midrun", f"the shared copy misses snapshot {w['name']}, which was acknowledged before the last sync", {"what": "missing"})
            if enginea.h5_group_hash(f[w["name"]]) != w["ghash"]:
                raise OracleFailure("C06.midrun", f"snapshot {w['name']} in the shared copy differs from what was acknowledged", {"what": "content"})
    finally:
        f.close()
    if st.get("load"):
        _peek_load(d, actor, path, n)
    return None


def _peek_load(d, actor, path, n):
    """The mid-run reader also *loads* the oldest synced snapshot of this life, in the process of the
    run: it must be the state as of that write, and loading must not disturb the run - objects
    created afterwards still get serial numbers no live object carries (histories match by them)."""
    from armi.bookkeeping.db.database import Database
    from armi.reactor.composites import Composite

    mine = [w for w in d.writes if w["life"] == d.life][:n]
    if not mine:
        return
    w = mine[0]
    with Database(path, "r") as db:
        old = db.load(w["cycle"], w["node"], cs=actor.o.cs, bp=actor.o.r.blueprints, statePointName=w["label"] or None, allowMissing=True)
    got = sentinel_map(old)
    for sn, v in w["sent"].items():
        if got.get(sn, "<absent>") != v:
            raise OracleFailure("C06.isolation", f"mid-run load of {w['name']}: object serial {sn} has {got.get(sn, '<absent>')}, it had {v} when that snapshot was acknowledged", {"what": "midrun-load"})
    live = {int(o.p.serialNum) for o in all_objects(actor.o.r)}
    top = max(live)
    for _ in range(20000):  # the next objects to be born (a fresh assembly is a few dozen objects)
        probe = Composite("probe")
        sn = int(probe.p.serialNum)
        if sn in live:
            raise OracleFailure("C06.identity", f"an object created after loading the older snapshot {w['name']} in the middle of the run got serial number {sn}, which a live object of the run carries (histories match objects by serial number)", {"what": "serial-reused"})
        if sn > top:
            break
    d.probes["midrun_loads"] += 1


def op_dbihist(d, st, actor):
    """An interface asks the database interface for the core's history up to now, handing it the
    same list of steps it keeps for that purpose every time."""
    o = actor.o
    dbi = o.getInterface("database")
    if dbi is None or dbi._db is None or not dbi._db.isOpen():
        return None
    r = o.r
    now = (int(r.p.cycle), int(r.p.timeNode))
    steps = d.hsteps.setdefault(d.life, [])
    mine = [w for w in d.writes if w["life"] == d.life and "sent" in w]
    for w in mine:
        t = (w["cycle"], w["node"])
        if t not in steps and (t <= now):
            steps.append(t)
    if now not in steps:
        steps.append(now)
    before = list(steps)
    h = dbi.getHistory(r.core, ["vSent"], steps)
    if steps != before:
        raise OracleFailure("C06.history", f"DatabaseInterface.getHistory changed the caller's list of steps: {before} -> {steps}", {"what": "caller-list"})
    got = {(int(a), int(b)): (None if v is None else float(v)) for (a, b), v in h["vSent"].items()}
    if sorted(got) != sorted(before):
        raise OracleFailure("C06.history", f"DatabaseInterface.getHistory(timeSteps={before}) at {now} returned steps {sorted(got)}", {"what": "midrun-steps"})
    sn = int(r.core.p.serialNum)
    for t, v in got.items():
        if t == now:
            allowed = [None if r.core.p.vSent is None else float(r.core.p.vSent)]
        else:
            allowed = [w["sent"].get(sn) for w in mine if (w["cycle"], w["node"]) == t]
        if v not in allowed:
            raise OracleFailure("C06.history", f"DatabaseInterface.getHistory at {now}: core vSent at {t} = {v}; it had {allowed}", {"what": "midrun-value"})
    d.probes["midrun_history_queries"] += 1
    return None


_ENOSPC = {"armed": None, "fired": False}


def _install_enospc():
    import errno

    import h5py

    if getattr(h5py.Group, "_verif_wrapped", False):
        return
    orig = h5py.Group.create_dataset

    def create_dataset(self, name, *a, **kw):
        if _ENOSPC["armed"] is not None:
            _ENOSPC["armed"] -= 1
            if _ENOSPC["armed"] <= 0:
                _ENOSPC["armed"] = None
                _ENOSPC["fired"] = True
                raise OSError(errno.ENOSPC, "No space left on device (injected)")
        return orig(self, name, *a, **kw)

    h5py.Group.create_dataset = create_dataset
    h5py.Group._verif_wrapped = True


def op_enospc(d, st, actor):
    _install_enospc()
    _ENOSPC["armed"] = int(st["nth"])
    return None


def before_abort(d, st, actor):
    d.abort_state = {"sent": sentinel_map(actor.o.r), "cycle": int(actor.o.r.p.cycle), "node": int(actor.o.r.p.timeNode)}


def on_write(d, db, reactor, ent):
    if getattr(d, "suppress_ack", False):
        d.writes.pop()
        return
    name = f"c{ent['cycle']:02d}n{ent['node']:02d}{ent['label']}"
    ent["name"] = name
    ent["ghash"] = enginea.h5_group_hash(db.h5db[name])
    ent["sent"] = sentinel_map(reactor)
    ent["loc"] = location_map(reactor)
    ent["dirty"] = bool(getattr(d, "dirty", False))
    d.last_core_sent = reactor.core.p.vSent
    if d.dirty:
        d.dirty_writes += 1
    d.dirty = False


def choose_swaps(d, fh):
    r = fh.r
    cyc = int(r.p.cycle)
    if getattr(d, "changer", None) is not None:
        return  # no shuffling while a symmetry conversion is pending (restore would strand originals outside the domain)
    for i, st in d.by_key.get((d.life, "fuelHandler", "BOC", cyc, None, None), ()):
        if st["op"] == "discharge":
            asm = list(r.core)
            out = asm[st["a"] % len(asm)]
            inc = r.core.createAssemblyOfType(assemType=out.getType())
            d.fired["discharge"] += 1
            d.log.add("op", i, "discharge", out.getLocation())
            fh.dischargeSwap(inc, out)
            d.dirty = True
            d.nswaps += 1
            continue
        if st["op"] == "purge":
            # an assembly leaves the model for good; its position stays empty until something is charged there
            asm = list(r.core)
            if len(asm) < 3:
                continue
            out = asm[st["a"] % len(asm)]
            holes = d.__dict__.setdefault("holes", [])
            holes.append((out.spatialLocator, out.getType()))
            d.fired["purge"] += 1
            d.log.add("op", i, "purge", out.getLocation())
            r.core.removeAssembly(out, discharge=False)
            d.dirty = True
            continue
        if st["op"] == "charge":
            holes = d.__dict__.setdefault("holes", [])
            if not holes:
                continue
            loc, typ = holes.pop(0)
            inc = r.core.createAssemblyOfType(assemType=typ)
            d.fired["charge"] += 1
            d.log.add("op", i, "charge", str(tuple(int(x) for x in loc.getCompleteIndices())))
            r.core.add(inc, loc)
            d.dirty = True
            continue
        asm = list(r.core)
        if len(asm) < 2:
            continue
        a1 = asm[st["a"] % len(asm)]
        a2 = asm[st["b"] % len(asm)]
        if a1 is a2:
            continue
        d.fired["swap"] += 1
        d.log.add("op", i, "swap", a1.getLocation(), a2.getLocation())
        fh.swapAssemblies(a1, a2)
        d.dirty = True
        d.nswaps += 1


# -------------------------------------------------------------------------------------------------
def _group_time(name):
    return int(name[1:3]), int(name[4:6])


def expected_groups_after_merge(src_names, sc, sn):
    return sorted(nm for nm in src_names if _group_time(nm) < (sc, sn))


def check_file(path, expected, label, completed, cs, loads, pick, abort_state=None):
    """expected: {group name: log entry}.  Oracles 1, 2 and 6 on the file in the working dir."""
    from armi.bookkeeping.db.database import Database

    if not os.path.exists(path):
        raise OracleFailure("C06.file", f"{label}: no database file in the working directory", {"what": "missing", "label": label})
    try:
        db = Database(path, "r")
        db.open()
    except Exception as e:  # noqa: BLE001
        raise OracleFailure("C06.file", f"{label}: file does not open: {type(e).__name__}: {e}", {"what": "unopenable", "label": label})
    try:
        flag = bool(db.h5db.attrs["successfulCompletion"])
        if flag != completed:
            raise OracleFailure("C06.completion", f"{label}: successfulCompletion={flag}, expected {completed}", {"flag": flag, "label": label})
        names = sorted(k for k in db.h5db.keys() if db.timeNodeGroupPattern.match(k))
        if names != sorted(expected):
            miss = sorted(set(expected) - set(names))
            extra = sorted(set(names) - set(expected))
            raise OracleFailure("C06.listing", f"{label}: snapshots in file {names}; missing {miss}, unexpected {extra}", {"missing": bool(miss), "extra": bool(extra), "label": label})
        steps = list(db.genTimeSteps())
        exp_steps = sorted(_group_time(nm) for nm in expected)
        if sorted(steps) != exp_steps:
            raise OracleFailure("C06.listing", f"{label}: genTimeSteps {steps} expected multiset {exp_steps}", {"what": "genTimeSteps", "label": label})
        if steps != sorted(steps):
            raise OracleFailure("C06.listing", f"{label}: genTimeSteps not chronological: {steps}", {"what": "order", "label": label})
        for nm, ent in expected.items():
            c, n = _group_time(nm)
            if not db.hasTimeStep(c, n, nm[6:]):
                raise OracleFailure("C06.listing", f"{label}: hasTimeStep({c},{n},{nm[6:]!r}) is False for a written snapshot", {"what": "hasTimeStep", "label": label})
            gh = enginea.h5_group_hash(db.h5db[nm])
            if gh != ent["ghash"]:
                raise OracleFailure("C06.isolation", f"{label}: content of snapshot {nm} changed after it was acknowledged", {"what": "hash", "label": label})
        for c, n, lab in ((0, 0, "nosuch"), (98, 0, ""), (0, 97, "")):
            if db.hasTimeStep(c, n, lab):
                raise OracleFailure("C06.listing", f"{label}: hasTimeStep({c},{n},{lab!r}) is True for a snapshot never written", {"what": "phantom", "label": label})
        # load a sample of snapshots: sentinels as of that write
        order = sorted(expected)
        chosen = []
        if abort_state is not None:
            errs = [nm for nm in order if nm.endswith("error")]
            chosen += errs[-1:]
        if order:
            rot = pick % len(order)
            for nm in order[rot:] + order[:rot]:
                if len(chosen) >= loads + (1 if abort_state else 0):
                    break
                if nm not in chosen:
                    chosen.append(nm)
        for nm in chosen:
            c, n = _group_time(nm)
            r2 = db.load(c, n, cs=cs, statePointName=nm[6:] or None, allowMissing=True)
            got = sentinel_map(r2)
            want = expected[nm]["sent"]
            if got != want:
                diff = [(s, want.get(s), got.get(s)) for s in sorted(set(want) | set(got)) if want.get(s) != got.get(s)][:5]
                raise OracleFailure("C06.isolation", f"{label}: loading {nm} returned sentinels differing from the state at that write (serial, logged, loaded): {diff}", {"what": "sentinels", "label": label})
        return names
    finally:
        db.close()


def check_history(path, log_entries, cs, nobj, pick, probes):
    """Oracle 3: history by identity and by location against the write log."""
    import numpy as np
    from armi.bookkeeping.db.database import Database
    from armi.reactor import blocks

    plain = sorted(nm for nm in log_entries if len(nm) == 6)
    if not plain:
        return
    by_time = {}
    for nm, ent in log_entries.items():
        by_time.setdefault(_group_time(nm), []).append(ent)
    with Database(path, "r") as db:
        last = plain[-1]
        c, n = _group_time(last)
        r = db.load(c, n, cs=cs, allowMissing=True)
        blks = [b for b in r.core.iterChildren(deep=True) if isinstance(b, blocks.Block)]
        asms = list(r.core)
        comps = []
        k = pick
        for _ in range(nobj):
            comps.append(blks[k % len(blks)])
            k = k * 5 + 1
        # core positions whose indices a discharged assembly carries in the pool's own grid
        sfp = r.excore.get("sfp") if hasattr(r, "excore") else None
        if sfp is not None and len(sfp):
            taken = {tuple(int(x) for x in a.spatialLocator.getCompleteIndices()[:2]) for a in sfp if a.spatialLocator is not None and a.spatialLocator.grid is not None}
            for a in asms:
                if tuple(int(x) for x in a.spatialLocator.getCompleteIndices()[:2]) in taken and len(a):
                    comps.append(a[len(a) // 2])
                    probes["history_at_core_position_shared_with_a_pool_position"] += 1
        comps = list({id(x): x for x in comps}.values())
        # -- by identity, all steps
        hist = db.getHistories(comps, ["vSent"])
        for obj in comps:
            sn = int(obj.p.serialNum)
            h = hist[obj]["vSent"]
            got_keys = sorted((int(a), int(b)) for a, b in h.keys())
            existed = sorted(t for t, ents in by_time.items() if any(sn in e["sent"] for e in ents))  # (a fresh assembly has no past)
            if got_keys != existed:
                raise OracleFailure("C06.history", f"getHistories lists steps {got_keys}, the object was written at steps {existed}", {"what": "steps"})
            for (a, b), v in h.items():
                allowed = [e["sent"].get(sn) for e in by_time[(int(a), int(b))]]
                v = None if v is None else float(v)
                if v not in allowed:
                    raise OracleFailure("C06.history", f"getHistories(serial {sn}) at {(int(a), int(b))} = {v}; the object had {allowed} there", {"what": "value"})
        probes["history_queries"] += 1
        # -- by identity, explicit step subset (unlabelled snapshots only)
        sub = [_group_time(nm) for i, nm in enumerate(plain) if (pick >> i) & 1] or [_group_time(plain[0])]
        hist = db.getHistories(comps, ["vSent"], sub)
        cur = (int(r.p.cycle), int(r.p.timeNode))
        for obj in comps:
            sn = int(obj.p.serialNum)
            h = hist[obj]["vSent"]
            for t in sub:
                if sn not in log_entries[f"c{t[0]:02d}n{t[1]:02d}"]["sent"]:
                    continue  # the object did not exist yet at that step (a fresh assembly has no past)
                if t not in h:
                    raise OracleFailure("C06.history", f"getHistories(timeSteps={sub}) misses {t}", {"what": "subset"})
                v = h[t]
                v = None if v is None else float(v)
                want = log_entries[f"c{t[0]:02d}n{t[1]:02d}"]["sent"].get(sn)
                if v != want:
                    raise OracleFailure("C06.history", f"getHistories(serial {sn}, step {t}) = {v}, logged {want}", {"what": "value-subset"})
            extra = [t for t in h if (int(t[0]), int(t[1])) not in sub and (int(t[0]), int(t[1])) != cur]
            if extra:
                raise OracleFailure("C06.history", f"getHistories(timeSteps={sub}) also returned {extra}", {"what": "subset-extra"})
        # -- by location
        moved = False
        hl = db.getHistoriesByLocation(comps, ["vSent"], [_group_time(nm) for nm in plain])
        for obj in comps:
            here = tuple(int(x) for x in obj.spatialLocator.getCompleteIndices())
            for nm in plain:
                t = _group_time(nm)
                ent = log_entries[nm]
                occupant = [s for s, (cls, idx) in ent["loc"].items() if cls == type(obj).__name__ and idx == here]
                if len(occupant) != 1:
                    continue
                if occupant[0] != int(obj.p.serialNum):
                    moved = True
                want = ent["sent"].get(occupant[0])
                h = hl[obj]["vSent"]
                key = next((kk for kk in h if (int(kk[0]), int(kk[1])) == t), None)
                if key is None:
                    raise OracleFailure("C06.history", f"getHistoriesByLocation misses step {t} for location {here}", {"what": "loc-steps"})
                v = h[key]
                v = None if v is None else float(v)
                if v != want:
                    raise OracleFailure("C06.history", f"getHistoriesByLocation({here}) at {t} = {v}; the object there had {want}", {"what": "loc-value"})
        if moved:
            probes["history_after_move"] += 1
        # -- by location, one object at a time, for objects whose position was empty at an earlier step
        for obj in comps:
            sn = int(obj.p.serialNum)
            here = tuple(int(x) for x in obj.spatialLocator.getCompleteIndices())
            empty_at = [nm for nm in plain if not any(cls == type(obj).__name__ and idx == here for cls, idx in log_entries[nm]["loc"].values())]
            if not empty_at:
                continue
            h1 = db.getHistoriesByLocation([obj], ["vSent"], [_group_time(nm) for nm in plain])[obj]["vSent"]
            probes["history_by_location_over_a_step_with_the_position_empty"] += 1
            for nm in plain:
                t = _group_time(nm)
                ent = log_entries[nm]
                occupant = [s for s, (cls, idx) in ent["loc"].items() if cls == type(obj).__name__ and idx == here]
                key = next((kk for kk in h1 if (int(kk[0]), int(kk[1])) == t), None)
                if len(occupant) == 1:
                    v = None if key is None else h1[key]
                    v = None if v is None else float(v)
                    if key is None or v != ent["sent"].get(occupant[0]):
                        raise OracleFailure("C06.history", f"getHistoriesByLocation({here}) alone, at {t}: {v}; the object there had {ent['sent'].get(occupant[0])}", {"what": "loc-value-single"})
                elif not occupant and key is not None and t != cur:
                    raise OracleFailure("C06.history", f"getHistoriesByLocation({here}) reports a value at {t}, when nothing was there", {"what": "loc-phantom"})
            break
        # -- the user's own reference to an object that has left the reactor since (purged, no pool)
        first = plain[0]
        r0 = db.load(*_group_time(first), cs=cs, allowMissing=True)
        gone = sorted(r0.core, key=lambda a: int(a.p.serialNum))[pick % len(r0.core)]
        sn = int(gone.p.serialNum)
        if len(r0.core) > 1:
            r0.core.removeAssembly(gone, discharge=False)
            h = db.getHistories([gone], ["vSent"])[gone]["vSent"]
            probes["history_of_an_object_outside_any_reactor"] += 1
            got_keys = sorted((int(a), int(b)) for a, b in h.keys())
            existed = sorted(t for t, ents in by_time.items() if any(sn in e["sent"] for e in ents))
            if got_keys != existed:
                raise OracleFailure("C06.history", f"getHistories of an object held outside the reactor lists steps {got_keys}, it was written at steps {existed}", {"what": "steps-detached"})
            for (a, b), v in h.items():
                allowed = [e["sent"].get(sn) for e in by_time[(int(a), int(b))]]
                v = None if v is None else float(v)
                if v not in allowed:
                    raise OracleFailure("C06.history", f"getHistories(detached serial {sn}) at {(int(a), int(b))} = {v}; the object had {allowed} there", {"what": "value-detached"})
        _ = (np, asms)


def check_split(path, log_entries, scratch, pick, probes, cs=None):
    """Oracle 5: splitDatabase keeps exactly the requested steps, renumbered, backup == original."""
    import shutil

    import h5py
    from armi.bookkeeping.db.database import Database

    plain = sorted(nm for nm in log_entries if len(nm) == 6)
    if not plain:
        return
    keep = [nm for i, nm in enumerate(plain) if (pick >> i) & 1] or [plain[-1]]
    work = os.path.join(scratch, "split.h5")
    shutil.copyfile(path, work)
    db = Database(work, "a")
    db.open()
    try:
        if (pick >> 8) & 1:
            # a split that names a step the file does not hold is refused - and leaves the file alone
            absent = (max(_group_time(nm)[0] for nm in log_entries) + 3, 0)
            try:
                db.splitDatabase([_group_time(keep[0]), absent], "-refused")
            except ValueError:
                probes["split_refused_for_an_absent_step"] += 1
            else:
                raise OracleFailure("C06.split", f"a split keeping the absent step {absent} was accepted", {"what": "absent-accepted"})
            left = sorted(k for k in db.h5db.keys() if Database.timeNodeGroupPattern.match(k)) if db.h5db is not None else None
            if left != sorted(log_entries):
                raise OracleFailure("C06.split", f"after a refused split (absent step {absent}) the file lists {left}, it held {sorted(log_entries)}", {"what": "refused-split-changed-the-file"})
        steps_to_keep = [_group_time(nm) for nm in keep]
        if (pick >> 7) & 1:
            steps_to_keep.reverse()  # the order in which the caller lists the steps is the caller's business
            probes["split_steps_listed_descending"] += 1
        backup = db.splitDatabase(steps_to_keep, "-all")
    finally:
        db.close()
    with h5py.File(backup, "r") as bk:
        names = sorted(k for k in bk.keys() if Database.timeNodeGroupPattern.match(k))
        if names != sorted(log_entries):
            raise OracleFailure("C06.split", f"backup lists {names}, original had {sorted(log_entries)}", {"what": "backup-list"})
        for nm in names:
            if enginea.h5_group_hash(bk[nm]) != log_entries[nm]["ghash"]:
                raise OracleFailure("C06.split", f"backup snapshot {nm} differs from the original", {"what": "backup-content"})
    minc = min(_group_time(nm)[0] for nm in keep)
    with h5py.File(work, "r") as cur, h5py.File(backup, "r") as bk:
        names = sorted(k for k in cur.keys() if Database.timeNodeGroupPattern.match(k))
        want = sorted(f"c{_group_time(nm)[0] - minc:02d}n{_group_time(nm)[1]:02d}" for nm in keep)
        if names != want:
            raise OracleFailure("C06.split", f"split file lists {names}, expected {want} (keep={keep})", {"what": "split-list"})
        for nm in keep:
            c, n = _group_time(nm)
            new = f"c{c - minc:02d}n{n:02d}"
            if int(cur[new + "/Reactor/cycle"][()][0]) != c - minc:
                raise OracleFailure("C06.split", f"{new}: Reactor/cycle not renumbered", {"what": "renumber"})
            a = _hash_without(cur[new], "Reactor/cycle")
            b = _hash_without(bk[nm], "Reactor/cycle")
            if a != b:
                raise OracleFailure("C06.split", f"split snapshot {new} differs from source {nm} beyond the cycle renumbering", {"what": "split-content"})
    # the split file answers history queries under the steps it lists
    with Database(work, "r") as sdb:
        listed = sorted((int(c), int(n)) for c, n in sdb.genTimeSteps())
        c0, n0 = listed[-1]
        rr = sdb.load(c0, n0, cs=cs, allowMissing=True)
        hh = sdb.getHistories([rr.core], ["vSent"])
        keys = sorted((int(a), int(b)) for a, b in hh[rr.core]["vSent"].keys())
        if keys != listed:
            raise OracleFailure("C06.split", f"the split file lists the steps {listed}, a history query on it answers for the steps {keys}", {"what": "split-history-keys"})
    probes["split_checked"] += 1
    if _group_time(plain[-1])[0] > 0:
        check_split_same_object(path, log_entries, plain, scratch, cs, probes)


def check_split_same_object(path, log_entries, plain, scratch, cs, probes):
    """One Database object: histories are asked, the file is split so that the last cycle's steps take
    over the names of the first cycle's, and histories are asked again of that same object."""
    import shutil

    from armi.bookkeeping.db.database import Database

    keep = [nm for nm in plain if _group_time(nm)[0] == _group_time(plain[-1])[0]]
    work = os.path.join(scratch, "split2.h5")
    shutil.copyfile(path, work)
    db = Database(work, "a")
    db.open()
    try:
        r_pre = db.load(*_group_time(plain[-1]), cs=cs, allowMissing=True)
        db.getHistories(list(r_pre.core), ["vSent"])
        db.getHistories([b for a in r_pre.core for b in a][:40], ["vSent"])
        db.splitDatabase([_group_time(nm) for nm in keep], "-all2")
        minc_ = _group_time(keep[0])[0]
        src_of = {(_group_time(nm)[0] - minc_, _group_time(nm)[1]): nm for nm in keep}
        listed_ = sorted((int(c), int(n)) for c, n in db.genTimeSteps())
        r_post = db.load(*listed_[-1], cs=cs, allowMissing=True)
        hh_ = db.getHistories(list(r_post.core), ["vSent"], listed_)
        hh_.update(db.getHistories([b for a in r_post.core for b in a][:40], ["vSent"], listed_))
        probes["history_through_the_same_object_before_and_after_a_split"] += 1
        for obj in hh_:
            sn_ = int(obj.p.serialNum)
            for t_, v_ in hh_[obj]["vSent"].items():
                t_ = (int(t_[0]), int(t_[1]))
                if t_ not in src_of or sn_ not in log_entries[src_of[t_]]["sent"]:
                    continue
                want_ = log_entries[src_of[t_]]["sent"].get(sn_)
                v_ = None if v_ is None else float(v_)
                if v_ != want_:
                    raise OracleFailure("C06.split", f"history asked of the database object that was split: serial {sn_} at kept step {t_} (was {src_of[t_]}) = {v_}, written {want_}", {"what": "split-history-same-object"})
    finally:
        db.close()


def _hash_without(group, skip):
    import hashlib

    import h5py
    import numpy as np

    h = hashlib.sha256()

    def walk(grp, prefix):
        for name in sorted(grp.keys()):
            path = (prefix + "/" + name).lstrip("/")
            if path == skip:
                continue
            obj = grp[name]
            h.update(path.encode())
            if isinstance(obj, h5py.Group):
                walk(obj, path)
            else:
                a = np.asarray(obj[()])
                h.update(str(a.dtype.kind).encode() + str(a.shape).encode())
                h.update(repr(a.tolist()).encode() if a.dtype.kind == "O" else a.tobytes())
                for k in sorted(obj.attrs.keys()):
                    v = np.asarray(obj.attrs[k])
                    h.update(k.encode())
                    h.update(v.astype("S").tobytes() if v.dtype.kind in "OU" else v.tobytes())

    walk(group, "")
    return h.hexdigest()


# -------------------------------------------------------------------------------------------------
def _window(director, abort_step, stack_names, life, restart_cfg):
    """Is the abort point inside the window the statement covers: after the database was opened
    (main's BOL) and before the database interface finalised the file at EOL."""
    hook = abort_step["hook"]
    pos = stack_names.index(abort_step["actor"])
    if hook == "BOL":
        return pos > stack_names.index("main")
    if hook == "EOL":
        # EOL order: non-reversed interfaces in stack order, then reversed ones (reversed)
        rev = director.o.getInterface(abort_step["actor"]).reverseAtEOL
        if rev:
            return False
        return pos < stack_names.index("database")
    return True


def diskfull_run(plan, cfg, cs, o, d, scratch, title, log, clock, simos):
    """Narrow oracle of the disk-full configuration: snapshots acknowledged *before* the fault keep
    their logged content in whatever file is left; nothing is asserted about the torn snapshot, the
    completion flag or later snapshots (the property excludes failures of the writer itself)."""
    import h5py

    _ENOSPC["armed"] = None
    _ENOSPC["fired"] = False
    try:
        with o:
            o.operate()
        ended = "completed"
    except BaseException as e:  # noqa: BLE001
        if not _ENOSPC["fired"]:
            raise
        ended = type(e).__name__
    finally:
        _ENOSPC["armed"] = None
    probes = d.probes
    probes["diskfull_runs"] += 1
    if _ENOSPC["fired"]:
        probes["enospc_fired"] += 1
    acked = [w for w in d.writes if "ghash" in w]
    path = os.path.join(scratch, title + ".h5")
    sync = cfg["settings"].get("syncAfterWrite", True)
    if _ENOSPC["fired"] and os.path.exists(path):
        try:
            f = h5py.File(path, "r")
        except Exception as e:  # noqa: BLE001
            raise OracleFailure("C06.diskfull", f"file left after a disk-full write does not open: {e}", {"what": "unopenable"})
        try:
            present = [w for w in acked if w["name"] in f]
            for w in present:
                if enginea.h5_group_hash(f[w["name"]]) != w["ghash"]:
                    raise OracleFailure("C06.diskfull", f"snapshot {w['name']}, acknowledged before the disk filled up, changed", {"what": "content"})
            # with sync-after-write every acknowledged node snapshot reached the working directory
            if sync:
                plain = [w for w in acked if len(w["name"]) == 6]
                upto = d.synced_upto.get(0, 0)
                for w in [w for w in d.writes if w["life"] == 0 and "ghash" in w][:upto]:
                    if w["name"] not in f:
                        raise OracleFailure("C06.diskfull", f"snapshot {w['name']} had been synced to the working directory before the disk filled up and is gone", {"what": "lost"})
                _ = plain
        finally:
            f.close()
    stats = {"acknowledged_writes": len(acked), "op_enospc": d.fired.get("enospc", 0)}
    for k, v in simos.stats.items():
        stats["fs_" + k] = v
    return kernel.result(
        kernel.PASS,
        digest=log.digest(),
        nevents=len(log),
        stats=stats,
        probes=dict(probes),
        sim={"virtual_wall_s": clock.slept},
        sig=kernel.digest(["diskfull", ended, len(acked), sorted((s["hook"], s["op"]) for s in plan["steps"])])[:16],
        nontrivial=bool(_ENOSPC["fired"]),
    )


def execute(plan):
    cfg = plan["config"]
    log, scratch, clock, simos, d = enginea.new_run(plan)
    d.ops.update({"set": op_set, "dupwrite": op_dupwrite, "_before_abort": before_abort, "peek": op_peek, "dbihist": op_dbihist, "htquery": op_htquery, "dupmark": op_dupmark, "enospc": op_enospc})
    d.hsteps = {}
    d.scratch = scratch
    d.synced_upto = {}

    def copy_done(dst):
        d.synced_upto[d.life] = len([w for w in d.writes if w["life"] == d.life and "ghash" in w])

    simos.on_copy_done = copy_done
    d.on_write_cb = on_write
    d.choose_swaps = lambda fh: choose_swaps(d, fh)
    d.dirty = False
    d.dirty_writes = 0
    d.nsets = 0
    d.nswaps = 0
    d.abort_state = None
    d.last_core_sent = None
    stats = {}
    probes = d.probes
    sig = [cfg.get("reactor")]
    try:
        rd = cfg.get("reader", {})
        # ---------------- first life
        cs, o, infos = enginea.build_life(cfg, scratch, 0, d)
        title = cs.caseTitle
        stack_names = [i.name for i in o.interfaces]
        if cfg.get("diskfull"):
            return diskfull_run(plan, cfg, cs, o, d, scratch, title, log, clock, simos)
        err = enginea.run_life(o, d)
        path = os.path.join(scratch, title + ".h5")
        writes0 = {w["name"]: w for w in d.writes if w["life"] == 0}
        if len(writes0) != len([w for w in d.writes if w["life"] == 0]):
            raise OracleFailure("C06.overwrite", "two acknowledged writes for the same (cycle, node, label)", {"what": "double-ack"})
        abort0 = d.aborted
        in_window = True
        if err is not None:
            in_window = _window(d, abort0, stack_names, 0, None)
            probes["abort_" + abort0["hook"] + ("_in" if in_window else "_out")] += 1
            probes["abort_kind_" + abort0.get("kind", "RuntimeError")] += 1
            sig.append(("abort", abort0["hook"], stack_names.index(abort0["actor"]) > stack_names.index("database"), in_window))
        if err is None:
            hist = schedule.expand_history(cfg["settings"])
            halts = sorted(s["cycle"] for s in plan["steps"] if s["op"] == "halt" and s.get("life", 0) == 0 and d.fired.get("halt"))
            hc = halts[0] if halts else None
            want_plain = {f"c{c:02d}n{n:02d}" for c, n in schedule.node_numbering(hist) if hc is None or c < hc}
            eol = (max(want_plain) if hc is None else f"c{hc:02d}n00") + "EOL"
            have = set(writes0)
            if hc is not None:
                probes["halted_run"] += 1
            if not (want_plain | {eol}) <= have:
                raise OracleFailure("C06.complete", f"completed run acknowledged {sorted(have)}; every visited node plus EOL would be {sorted(want_plain | {eol})}", {"what": "nodes", "halted": hc is not None})
            check_file(path, writes0, "life0-completed", True, cs, rd.get("loads", 1), rd.get("pick", 0))
            if rd.get("postLoad") and any(len(nm) == 6 for nm in writes0):
                # the run is over; the same process goes on and asks the database interface for a state of
                # that run (post-processing): the finished file must come through that untouched
                plain0 = sorted(nm for nm in writes0 if len(nm) == 6)
                c_, n_ = _group_time(plain0[rd.get("pick", 0) % len(plain0)])
                try:
                    o.getInterface("database").loadState(c_, n_)
                except Exception as e:  # noqa: BLE001 - judged by what is left of the file
                    log.add("postload-raised", type(e).__name__)
                probes["state_loaded_through_the_interface_after_the_run"] += 1
                check_file(path, writes0, "life0-after-post-run-load", True, cs, 1, rd.get("pick", 0))
        elif in_window:
            errname = [nm for nm in writes0 if nm.endswith("error")]
            if not errname:
                raise OracleFailure("C06.abort", f"abort at {abort0['hook']} in {abort0['actor']}: no error snapshot was written", {"what": "no-error-snapshot", "hook": abort0["hook"]})
            if writes0[errname[-1]]["sent"] != d.abort_state["sent"]:
                raise OracleFailure("C06.abort", "error snapshot does not hold the state at the failure", {"what": "error-state", "hook": abort0["hook"]})
            check_file(path, writes0, "life0-aborted", False, cs, rd.get("loads", 1), rd.get("pick", 0), abort_state=d.abort_state)
            if rd.get("postLoad") and any(len(nm) == 6 for nm in writes0):
                # the analyst looks into the crashed run's file through the interface's own database
                # object: what is in the file, and the mark that the run did not complete, stay
                plain0 = sorted(nm for nm in writes0 if len(nm) == 6)
                c_, n_ = _group_time(plain0[rd.get("pick", 0) % len(plain0)])
                try:
                    with o.getInterface("database").database as db_:
                        db_.load(c_, n_, cs=cs, allowMissing=True)
                except Exception as e:  # noqa: BLE001 - judged by what is left of the file
                    log.add("postload-raised", type(e).__name__)
                probes["file_of_an_aborted_run_looked_into_through_the_interface"] += 1
                check_file(path, writes0, "life0-aborted-after-a-look", False, cs, 1, rd.get("pick", 0), abort_state=d.abort_state)
        else:
            # outside the window the abort clause is not asserted; the file, if any, must open
            if os.path.exists(path):
                import h5py

                try:
                    with h5py.File(path, "r"):
                        pass
                except Exception as e:  # noqa: BLE001
                    raise OracleFailure("C06.file", f"life0 abort outside the window: file does not open: {e}", {"what": "unopenable", "label": "outside"})
        sig.append(("w0", len(writes0)))
        final_path, final_log, final_cs = (path, writes0, cs) if (err is None or in_window) else (None, None, None)
        # ---------------- restart
        rs = cfg.get("restart")
        if rs and final_path and os.path.exists(final_path):
            hist = schedule.expand_history(cfg["settings"])
            nodes = schedule.node_numbering(hist)
            cands = [nodes[k] for k in range(1, len(nodes)) if f"c{nodes[k - 1][0]:02d}n{nodes[k - 1][1]:02d}" in writes0]
            if cands:
                sc, sn = cands[rs["pick"] % len(cands)]
                os.rename(final_path, os.path.join(scratch, "life0.h5"))
                extra = {"loadStyle": "fromDB", "reloadDBName": "life0.h5", "startCycle": sc, "startNode": sn}
                d.abort_state = None
                cs2, o2, _ = enginea.build_life(cfg, scratch, 1, d, extra_settings=extra)
                stack2 = [i.name for i in o2.interfaces]
                err2 = enginea.run_life(o2, d)
                merged = expected_groups_after_merge(list(writes0), sc, sn)
                exp1 = {nm: writes0[nm] for nm in merged}
                w1 = [w for w in d.writes if w["life"] == 1]
                for w in w1:
                    if w["name"] in exp1:
                        raise OracleFailure("C06.overwrite", f"restart life acknowledged a write for {w['name']}, which the merged history already holds", {"what": "restart-overwrite"})
                    exp1[w["name"]] = w
                probes["restart_node0" if sn == 0 else "restart_midcycle"] += 1
                if abort0 is not None:
                    probes["restart_after_abort"] += 1
                if any(len(nm) > 6 for nm in merged):
                    probes["labelled_snapshot_merged"] += 1
                sig.append(("restart", sc, sn, len(merged)))
                path1 = os.path.join(scratch, title + ".h5")
                ab1 = d.aborted
                if err2 is None:
                    check_file(path1, exp1, "life1-completed", True, cs2, rd.get("loads", 1), rd.get("pick", 0) + 1)
                    final_path, final_log, final_cs = path1, exp1, cs2
                else:
                    inw = _window(d, ab1, stack2, 1, rs)
                    probes["abort1_" + ab1["hook"] + ("_in" if inw else "_out")] += 1
                    sig.append(("abort1", ab1["hook"], inw))
                    if inw:
                        errname = [w["name"] for w in w1 if w["name"].endswith("error")]
                        if not errname:
                            ename = f"c{d.abort_state['cycle']:02d}n{d.abort_state['node']:02d}error"
                            raise OracleFailure(
                                "C06.abort",
                                f"restart life: abort at {ab1['hook']} in {ab1['actor']}: no error snapshot was written"
                                + (f" (the merged history already holds {ename} from the aborted first life)" if ename in merged else ""),
                                {"what": "no-error-snapshot", "life": 1, "merged_error_collision": ename in merged},
                            )
                        if exp1[errname[-1]]["sent"] != d.abort_state["sent"]:
                            raise OracleFailure("C06.abort", "restart life: error snapshot does not hold the state at the failure", {"what": "error-state", "hook": ab1["hook"], "life": 1})
                        check_file(path1, exp1, "life1-aborted", False, cs2, rd.get("loads", 1), rd.get("pick", 0) + 1, abort_state=d.abort_state)
                        final_path, final_log, final_cs = path1, exp1, cs2
                    else:
                        final_path = None
                # the source of the merge is untouched
                check_file(os.path.join(scratch, "life0.h5"), writes0, "life0-after-restart", err is None, cs, 0, 0)
        # ---------------- reader
        if final_path and os.path.exists(final_path):
            check_history(final_path, final_log, final_cs, rd.get("hist_objs", 1), rd.get("pick", 0), probes)
            if rd.get("split"):
                check_split(final_path, final_log, scratch, rd.get("pick", 0), probes, final_cs)
        for k, v in simos.stats.items():
            stats["fs_" + k] = v
        for k, v in d.fired.items():
            stats["op_" + k] = v
        stats["clock_jumps"] = clock.jumps
        stats["acknowledged_writes"] = len(d.writes)
        probes["writes_after_state_change"] += d.dirty_writes
        nev = sum(len(t) for t in d.traces.values())
        sig.append(sorted((s.get("life", 0), s["hook"], s["op"]) for s in plan["steps"]))
        return kernel.result(
            kernel.PASS,
            digest=log.digest(),
            nevents=len(log),
            stats=stats,
            probes=dict(probes),
            sim={"virtual_wall_s": clock.slept, "hook_calls": nev, "reactor_days": sum(sum(s) for s in schedule.expand_history(cfg["settings"])["steps"])},
            sig=kernel.digest(sig)[:16],
            nontrivial=d.dirty_writes > 0 or abort0 is not None,
        )
    finally:
        enginea.cleanup(scratch)


_ = armiboot
