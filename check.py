"""Entry point of the verification machinery (see DESIGN.md)."""
import importlib
import json
import os
import sys

HERE = os.path.dirname(os.path.abspath(__file__))
sys.path.insert(0, HERE)

if os.environ.get("PYTHONHASHSEED") is None:
    os.environ["PYTHONHASHSEED"] = "0"
    os.execv(sys.executable, [sys.executable] + sys.argv)

from sim import kernel  # noqa: E402

kernel.HASHSEED = os.environ.get("PYTHONHASHSEED", "0")

WORLDS = {
    "C15": "worlds.c15",
    "C06": "worlds.c06",
    "C04": "worlds.c04",
    "C05": "worlds.c05",
    "C14": "worlds.c14",
    "C16": "worlds.c16",
    "C01": "worlds.c01",
    "C12": "worlds.c12",
    "C13": "worlds.c13",
    "C02": "worlds.c02",
    "C03": "worlds.c03",
}

# per-property tier sizes: (runs, wall budget seconds, per-run timeout)
TIERS = {
    "quick": {"default": (96, 75, 120)},
    "thorough": {"default": (6000, 600, 180)},
}


def load_world(prop):
    from sim import armiboot

    armiboot.boot()
    return importlib.import_module(WORLDS[prop])


def main(argv):
    from sim import driver

    if len(argv) < 2:
        print(__doc__)
        print("usage: check <Cxx> <quick|thorough> | check replay <file> | check digests ...")
        return 2
    cmd = argv[1]
    workers = int(os.environ.get("VERIF_WORKERS", "16"))
    if cmd == "replay":
        path = argv[2]
        with open(path) as f:
            doc = json.load(f)
        world = load_world(doc["property"])
        return driver.replay(world, path)
    if cmd == "digests":
        prop, tier, seed, idxs = argv[2], argv[3], int(argv[4]), [int(x) for x in argv[5].split(",")]
        world = load_world(prop)
        d = driver.digests_for(world, tier, seed, idxs, workers=min(workers, 8))
        print("DIGESTS " + json.dumps(d))
        return 0
    prop = cmd
    tier = argv[2] if len(argv) > 2 else os.environ.get("VERIF_TIER", "quick")
    if prop not in WORLDS:
        print(f"unknown property {prop}", file=sys.stderr)
        return 2
    world = load_world(prop)
    seed = int(os.environ.get("VERIF_SEED", "0"))
    t = TIERS[tier]
    runs, budget, timeout = getattr(world, "TIERS", {}).get(tier) or t.get(prop) or t["default"]
    if os.environ.get("VERIF_RUNS"):
        runs = int(os.environ["VERIF_RUNS"])
    if os.environ.get("VERIF_BUDGET_S"):
        budget = int(os.environ["VERIF_BUDGET_S"])
    return driver.run_batch(world, tier, seed, runs, budget, workers=workers, timeout=timeout)


if __name__ == "__main__":
    sys.exit(main(sys.argv))
