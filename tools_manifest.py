"""Regenerates MANIFEST.json from the table below (developer tool; keeps the file schema-valid)."""
import json, os
HERE = os.path.dirname(os.path.abspath(__file__))

CLAIMED = {
 "C15": {
  "text": "Seeded search over run configurations (cycle histories, interface stacks, deferral, tight coupling with scripted convergence, truthy hook returns, restart points): the real Operator runs the real interface stack on a real reactor under a virtual clock and simulated mv/cp, every interact* call is recorded, and the trace must equal event for event the trace of an independent ~150-line reference scheduler; node arithmetic and cycle-history expansion are compared with independent counting. Sampling, not proof: a clean batch is evidence.",
  "design_ref": "DESIGN.md §3.3",
  "note": "Trusted: the reference scheduler in models/schedule.py (written from the statement), h5py, the stub physics actors. Single MPI rank. Only the framework's built-in interfaces plus sim actors are in the stack.",
  "technique": "deterministic simulation of a whole run under a seeded scheduler; refinement check of the recorded hook trace against an executable reference scheduler",
 },
}

CLAIMED["C06"] = {
  "text": "Seeded search over whole-run histories with fault injection: first life (optionally aborted by an exception of a seed-chosen kind raised inside a seed-chosen interface at a seed-chosen hook/cycle/node/iteration), optional restart from a seed-chosen node of the file left behind (with its own optional abort), then a post-mortem reader. The model is a log of acknowledged writes (content hash of the HDF5 group, sentinel of every object by serial number, every location). Oracles on the file in the working directory: opens; completion flag; listing == log (multiset, chronological, hasTimeStep); every group content-identical to its acknowledgement; loads return the sentinels of that write; duplicate writes refused; history by identity and by location == log after shuffles; merge == groups before the restart point, unchanged, source untouched; split == requested steps renumbered, backup identical; error snapshot holds the state at the failure. Added later (DESIGN §13): zero-step and outage cycles in detailed histories, an iteration cap of 0, coupled quantities that move between nodes and couplers that hand out a live list, same-function interface replacement, exclusion probes. Added later (DESIGN §13): a mid-run reader that hash-checks and also loads the run's first snapshot inside the running process (then the next objects to be born must not reuse a live serial number), fresh assemblies charged mid-run, history queries through the database interface and the history tracker around the node write, split with steps in descending order and a history query on the split file, a disk-full configuration (one-shot ENOSPC inside the writer), Cartesian cores. Sampling, not proof.",
  "design_ref": "DESIGN.md §3.4",
  "note": "Trusted: the write-log observer (wraps Database.writeToDB to see acknowledgements), h5py/HDF5 (I/O in C: no torn writes inside the file), SimOS latency below armi's own time-outs. Single failure per life; failures are exceptions that run the error hooks, not kill -9.",
  "technique": "deterministic simulation with fault injection (abort/restart at seeded crash points, lagging mv/cp, clock jumps); history checked against a write-log reference model",
}

CLAIMED["C04"] = {
  "text": "Seeded search over reactor states reached inside real runs: sim actors change parameters of several value kinds on every level, number densities, temperatures, dimensions, block heights, rotate assemblies and swap them through the real fuel handler between database writes; at every acknowledged write an observational digest of the live reactor is taken through public queries (tree, names, serial numbers, child order, grids, locators, global coordinates, every persistent parameter, materials, temperatures, dimensions with links, number densities, area/volume/mass). The reader loads a seed-chosen sample of snapshots and compares field by field, loads twice, saves the loaded reactor to a new file and loads that. Added later (DESIGN §13): Cartesian cores (full/quarter, centred on an assembly or a corner), pin lattices with an empty position, non-integer system origins, discharge to the pool, geometry conversion as a step, a user-forced persistent parameter (forceDbParams), a parameter first assigned beside an open retainState scope, a no-default parameter on single objects, and a second write of a node after a rotation. Sampling, not proof.",
  "design_ref": "DESIGN.md §3.5",
  "note": "Trusted: the digest/compare code (worlds/obsdigest.py), h5py. Comparison rules fixed in DESIGN.md: 1e-12 relative, sequences by value, unassigned == default, child order vs the model's own sort, free-coordinate vs index locator accepted when global coordinates agree. Workloads keep the state physical (no component overlap) and derived mass parameters consistent.",
  "technique": "deterministic simulation of runs writing to real HDF5 storage; write/restart-load round trip checked against an observational digest taken at acknowledgement time",
}

CLAIMED["C05"] = {
  "text": "Seeded search over the database as a key->value store on a real HDF5 file with writer/reader configuration skew: a writer process (seed-chosen extra flags in a seed-chosen order) performs 6-40 transactions, each assigning one per-object collection (27 value kinds x 6 None patterns x value seed, incl. numeric extremes, the encoder's own None markers, ragged/empty/nested/dict/flag values) to one untyped parameter of one object class and writing a snapshot through writeToDB or the direct _writeParams/_readParams path; a reader process with a permuted superset of the flags loads every accepted snapshot. Oracle: the statement's normalisations only (sequence<->array, empty ragged entry may be unset, NaN is unset for reals) or refusal at write time; a different value or a read-time error is the violation. Added later (DESIGN §13): collections mixing kinds (int/float, number/text, bool/int), 2-D entries that are not C-contiguous, arrays with unset values inside them, a second writer process with the same flags in another order (the one reader reads file 1, file 2, file 1), flags of every object, and after every refused write the file must not hold the snapshot. Sampling, not proof.",
  "design_ref": "DESIGN.md §3.5",
  "note": "Trusted: the comparison code in worlds/c05.py, h5py. Collections are homogeneous in value kind (plus None). The reader's flag set is a permuted superset of the writer's.",
  "technique": "deterministic simulation of a writer process and a configuration-skewed reader process over real HDF5 storage; per-value read-back against the written history",
}

CLAIMED["C14"] = {
  "text": "Seeded search over fuel-management histories on generated hex cores (1-3 rings, full/third symmetry, holes, stationary grid-plate blocks on/off, spent-fuel pool and tracking on/off): 4-40 operations per run (swap, cascade with None entries, discharge for a fresh or pooled assembly, add at a free location, remove/purge; plus rejected operations in their own configuration) executed by the real FuelHandler/Core; after every operation an inventory-ledger + location-map model is advanced and the statement's invariants are evaluated through the public API: children vs model, one assembly per location where the operation put it, location table == assemblies present, every live assembly/block found under its current name, purged ones never returned, block order/heights/dimensions/number densities unchanged up to the stationary exchange. Added later (DESIGN §13): Cartesian cores, self-swaps and duplicate cascade entries, two kinds of stationary blocks with misaligned plena (refusal must be entire), the stationary set taken from the settings, re-adding removed assemblies, adding a copy that carries a name the core holds. Sampling, not proof.",
  "design_ref": "DESIGN.md §4 (C14)",
  "note": "Trusted: models/shuffle.py (written from the statement). World B: single actor, no clock or I/O; what is simulated is the operation history and rejected operations.",
  "technique": "seeded model-based history search (deterministic simulation, single actor) against an inventory/location reference model, invariants after every operation",
}

CLAIMED["C16"] = {
  "text": "Seeded search over edit/scope histories on generated hex cores: 8-60 steps per run mixing parameter assignments of every kind on every level, number-density / temperature / hex-pitch / block-height changes, retainState scopes opened on arbitrary objects with arbitrary keep-sets and nesting up to 4, scopes left normally or cancelled by an exception raised at a plan-chosen step inside them, cache computations, deep copies and pickle round trips followed by edits on one side, and the read-only switch followed by assignments. Model: a stack of (object, keep-set, snapshot of the subtree's observable state); on every exit the state must equal the snapshot except that kept parameters hold their inner values (LIFO across nesting); copies equal, independent, fresh serial numbers, no serial shared by live objects; read-only refuses every assignment and changes nothing. Added later (DESIGN §13): Cartesian cores and the pool's offset grid, scopes entered with empty caches and dimensions assigned directly, nested scopes keeping the same parameter, keep-sets restricted to one class's definitions, a linked dimension given a number inside a scope, link identity in copies, and setter calls (number density, temperature, height, rotation) on a read-only model. Sampling, not proof.",
  "design_ref": "DESIGN.md §4 (C16)",
  "note": "Trusted: the snapshot/diff code in worlds/c16.py. Observable state = parameters, number densities, temperatures, grid constructor arguments. Pickles are checked for equality and independence, serial-number freshness only for deep copies.",
  "technique": "seeded model-based history search (deterministic simulation, single actor) with interrupted scopes as the injected fault; stack-of-snapshots reference model",
}

CLAIMED["C01"] = {
  "text": "Seeded search over structural edit histories: a generated hex core plus a pool of detached generic composites, and 10-70 steps per run of add / insert / remove / removeAll / setChildren on generic composites, add / insert / remove / reestablishBlockOrder / sort on assemblies, remove / re-add of components on blocks, deep copies and pickle round trips of arbitrary subtrees, and (own configuration) rejected operations. Model: handle -> (parent, ordered children). After every step the whole universe is compared with the model (single parent, listed exactly once, parent back-pointer, removed objects parent-less with a detached locator) and seed-chosen objects are queried through every traversal API (direct, deep, generation 1-4, predicates, flags exact/inexact, type names, leaf components, ancestors with distance) against a naive recursive walk of list(obj); copies are checked for equal shape, no shared node, re-linked parents, grids and locators. Added later (DESIGN §13): Cartesian cores and pin lattices, replaceBlockWithBlock (also repeatedly from one replacement), assemblies leaving the core (tracked discharge or removal), setChildren from a lazy iterator over the own children, exact/inexact ancestor flag queries, sub-locations of removed multi-location objects, and a final add of an object that still has a parent. Sampling, not proof.",
  "design_ref": "DESIGN.md §4 (C01)",
  "note": "Trusted: the naive walkers in worlds/c01.py. add/insert only receive detached objects that are not ancestors of the target; raw append/extend are never used; block edits keep blocks physically meaningful.",
  "technique": "seeded model-based history search (deterministic simulation, single actor) against a parent/child-map reference model and a naive tree walker",
}

CLAIMED["C12"] = {
  "text": "Seeded search over expansion histories on generated pin-type assemblies with a top dummy block (grid plate on/off, 1-4 fuel blocks, plenum on/off, seed-chosen heights): 3-25 steps per run of prescribed expansion of arbitrary solid-component subsets by factors in [0.9,1.12], uniform growth of all solids of seed-chosen blocks, steps followed by their inverse, and thermal expansion by a seed-chosen temperature field, executed by the real AxialExpansionChanger. Ledger checked after every step: total height, contiguity and positivity, centre elevations, axial indices, grid bounds == elevations, block top == top of its target component, target-component mass per step, every solid's mass under uniform growth, uniform step + inverse restores heights/densities/masses, axially linked components stacked bottom-on-top. Added later (DESIGN §13): blueprint-designated and per-block (public setter) targets, temperature fields including 0 C with an independent growth oracle, prescribed-growth oracle, Cartesian assemblies with a duct-only shield block over a Rectangle duct, a Custom-material liner, the changer's low-level calls after a refused prescription, and an over-growth step (refusal must be clean). Sampling, not proof.",
  "design_ref": "DESIGN.md §4 (C12)",
  "note": "Trusted: the ledger code in worlds/c12.py. Tolerance 1e-10 relative. Steps predicted to consume the dummy block are skipped; a loud ArithmeticError (negative block height) from armi ends the history as a legal refusal.",
  "technique": "seeded model-based history search (deterministic simulation, single actor) against a height/contiguity/mass ledger checked after every expansion step",
}

CLAIMED["C13"] = {
  "text": "Seeded search over conversion histories on generated third-core hex reactors (2-4 rings, holes incl. a missing centre, 1-2 fuel blocks): 3-14 steps per run of convert / restore / addEdge / removeEdge / parameter edits in every order the API accepts. After convert: the full-core cell set must equal the third-core cell centres rotated by 0/+120/-120 degrees (independent geometry), names unique, no shared descendants, look-ups resolve, and counts / nuclide masses / volume / volume-integrated totals are three times the third-core values with the centre once. After restore, and after add + remove edge assemblies: a by-identity state digest (assemblies, places, every parameter, number densities, temperatures, grids, symmetry, name/location look-ups) equals the digest taken before. Added later (DESIGN §13): rings up to 5, reused changer objects, trackAssems on/off, stale name tables and block/assembly volumes in the digest, restore with nothing pending, observations while edge assemblies are present, a solver running with edge assemblies and an explicit scaling subset, earlier rotations and six-valued boundary data, copy rotation, the x3 ledger with edge assemblies and a block-by-block centre ledger against a model of armi's mark bookkeeping. Sampling, not proof.",
  "design_ref": "DESIGN.md §4 (C13)",
  "note": "Trusted: the rotation geometry and digest code in worlds/c13.py. 1e-12 relative; monotone counters are not state; parameter edits are made only while no conversion is pending.",
  "technique": "seeded model-based history search (deterministic simulation, single actor) with an independent rotation-geometry oracle, a x3 ledger and before/after state digests",
}

CLAIMED["C02"] = {
  "text": "Seeded search over composition-edit histories (weakest fit: the laws are pointwise, the history selects the states) on generated hex cores incl. third-core models with the cut centre assembly: 4-30 edits per run (setNumberDensity, updateNumberDensities, setNumberDensities, changeNDensByFactor, setMassFrac, addMass, setMass, removeMass) at component / block / assembly / core level. After every edit: the edit's own read-back law (requested value read back at the same level, every other nuclide unchanged; mass-fraction edits keep total density and the others' proportions) and, from per-component primitives, mass = density x volume / symmetry factor, mass / volume / atoms additivity at block, assembly and core level, nuclide-list and element selections, mass fractions summing to one and equal to mass ratios, and the density <-> mass-fraction conversions being mutual inverses. Added later (DESIGN §13): Cartesian cores with an independent 'which fraction is modelled' oracle, third-core maps with holes and 5 rings with atomic add/remove of edge assemblies, a caller mutating the dict it passed, a heated solid followed by an area look and the law volume = area x height, dummy/lumped nuclides, a one-piece solid bottom block with cold-area queries. Sampling, not proof.",
  "design_ref": "DESIGN.md §4 (C02)",
  "note": "Trusted: the ledger arithmetic in worlds/c02.py; atomic weights and Avogadro's constant come from armi's tables (C19's subject). 1e-9 relative on sums.",
  "technique": "seeded model-based history search (deterministic simulation, single actor); composition ledger and additivity laws evaluated after every edit",
}

CLAIMED["C03"] = {
  "text": "Seeded search over temperature paths (weakest fit: the law is pointwise, the history is the path): every run takes one (2-D shape class, library material) pair - 11 shapes x 37 materials that armi can expand (22 solids with an expansion correlation, 15 fluids/custom), all pairs covered round-robin by run index - with seed-chosen cold dimensions, input temperature inside the material's stated range, a path of 2-8 temperatures, hot and cold setDimension calls, a companion component with a linked dimension, and a second path to the same end temperature. At every path point: each expanding dimension == cold value x linear factor recomputed independently from the material's percent correlation; area ratio == factor^2; number densities / factor^2; mass per unit height constant; setDimension reads back; the linked dimension follows its target; fluids/custom keep their dimensions; two paths to the same temperature give the same area and densities. Added later (DESIGN §13): fine ramps of tiny steps, assignments through a link, expansion-factor queries between explicit temperatures, explicit compositions for solids without reference composition, one composition dict shared by two components, a chain of two links and a link replaced by its current value. Sampling, not proof.",
  "design_ref": "DESIGN.md §4 (C03)",
  "note": "Trusted: worlds/c03.py arithmetic. Materials without a linear-expansion-percent correlation (15 of the library) are excluded because armi itself refuses hot dimensions for them (RuntimeError). 1e-10 relative.",
  "technique": "seeded history search over temperature paths (deterministic simulation, single actor, swarm over shape x material); conservation ledger along the path and path-independence check",
}

NA = {
 "C07": "pure function of (grid, index): no event order, clock, I/O or fault to simulate; exhaustive enumeration over N rings is the right tool, not simulation (DESIGN.md §6)",
 "C08": "pure functions of (grid, cell, k) and of a block's contents; rotations appear only as workload in the simulated runs (DESIGN.md §6)",
 "C09": "file round trip of a container with no crash/truncation/fault clause in the statement; buffered built-in file streams cannot short-read; a function of its input (DESIGN.md §6)",
 "C10": "sequential in-process merges; the only file discovery iterates a sorted glob, so there is no delivery order to simulate; order-independence over arguments is input permutation (DESIGN.md §6)",
 "C11": "function of (assembly, target mesh); no schedule, fault or history (DESIGN.md §6)",
 "C17": "function of the value assignment and write style; no fault or restart clause (DESIGN.md §6)",
 "C18": "function of the blueprint document; determinism clause is only incidentally exercised by the two-hash-seed digest self-test (DESIGN.md §6)",
 "C19": "static tables; exhaustive enumeration, not simulation (DESIGN.md §6)",
 "C20": "function of (block set, options); no schedule, fault or history (DESIGN.md §6)",
}
ROUND6 = {
 "C15": "declared interface dependencies (helpers, helper chains, inherited declarations; each exactly once, switched off, forced at beginning-of-life), table-valued coupler results updated in place, the restarted run's stack",
 "C06": "a label written twice (the first must survive the refusal), fuel-handler steps that purge an assembly and charge its position later, location histories of one object whose position was vacant at a written step, the history of an assembly held outside any reactor, a refused split",
 "C04": "parameters the assembly design states in the blueprints and that change during the run",
 "C05": "entries that are themselves ragged, ragged entries with a zero-length dimension, readers lacking some or most of the writer's flags",
 "C14": "a refused discharge of a stored assembly (must stay stored), a fresh assembly while the assembly counter is behind, in-core swaps naming a pool assembly and repeated discharges (refusals must be entire)",
 "C16": "a scope on one component with its neighbours' volumes looked at inside, the grid's stated pitch, keep-sets given as list or iterator, a kept dimension that was a link, parameters taken over between live objects (serial numbers), adjustDensity on a read-only model",
 "C01": "append and extend as spellings of add, cells of multi-place locators in copies",
 "C12": "a cladding re-dimensioned between two expansions with one changer and an independent linkage rule, low-level thermal steps with holds, growth that uses up the dummy block exactly",
 "C13": None,
 "C02": "composition setters above block level around height / temperature / cold-area steps, assemblies taken out of the core",
 "C03": "pin-wise and detailed number densities assigned independently",
}
for _k, _v in ROUND6.items():
    if _v:
        _t = CLAIMED[_k]["text"]
        _i = _t.rfind(" Sampling, not proof")
        CLAIMED[_k]["text"] = _t[:_i] + f" Round 6 (DESIGN §13.6): {_v}." + _t[_i:]

ROUND7 = {
 "C15": "restarts that prefer the node ending a cycle (with a power fraction other than one)",
 "C06": "a state asked through the database interface after the run, histories asked of one Database object before and after a split that renames steps",
 "C04": "2-D values on every other object of a class, lower-case cross-section types",
 "C05": "texts ending in white space, dictionaries of equal size under differing keys",
 "C14": "pools stocked by the blueprints (also without tracking), stationary-flag entries of two words, a discharge naming an incoming assembly from the core",
 "C16": "a kept parameter with a new value must stay listed, kept arrays that move by a hair or hold trace values",
 "C01": "the list a query returns is the caller's, copies and pickles of the whole core and reactor",
 "C13": "displacement vectors on the copies",
 "C02": "selections that name nothing present, a block taken out of the middle of an assembly",
 "C03": "inner dimensions that start at zero and get a hot value, a linked multiplicity",
}
for _k, _v in ROUND7.items():
    _t = CLAIMED[_k]["text"]
    _i = _t.rfind(" Sampling, not proof")
    CLAIMED[_k]["text"] = _t[:_i] + f" Round 7 (DESIGN §13.7): {_v}." + _t[_i:]

ROUND8 = {
 "C15": "a second instance of a class that holds its function offered after the run, converged coupler iterations that still move every row a little",
 "C06": None,
 "C04": "more than ten stored grids (three-ring cores, a height of its own in every assembly), origins that are not binary fractions, the material's composition in the digest",
 "C05": None,
 "C14": "histories on reactors read back from a database, a removed assembly added back without a location",
 "C16": "a number that becomes a link inside a keeping scope, the parameter without a default",
 "C01": "traversal variants that hand out materials, with predicates",
 "C12": "low-level thermal steps that re-temper only some components",
 "C13": "block-by-block values in the quantity a solver recomputes with edge assemblies present",
 "C02": "overlapping entries in one selection, a Void gap of negative volume",
 "C03": "paths through the exact zero of the expansion correlation, unshaped components",
}
for _k, _v in ROUND8.items():
    if _v:
        _t = CLAIMED[_k]["text"]
        _i = _t.rfind(" Sampling, not proof")
        CLAIMED[_k]["text"] = _t[:_i] + f" Round 8 (DESIGN §13.8): {_v}." + _t[_i:]

ROUND9 = {
 "C15": "an interface added at a stated position of the stack",
 "C06": "the file of an aborted run looked into through the interface's own database object",
 "C04": "environment groups beyond the 26th, a pin component on a single lattice site",
 "C16": "(name, step) history entries in deep copies",
 "C01": "a refused second assembly of one name must not stay attached",
 "C12": "fuel components sharing one composition dict",
 "C02": "adjustMassFrac with an element held constant",
 "C03": "factor and area queries at explicit temperatures including zero degrees, annular wires",
}
for _k, _v in ROUND9.items():
    _t = CLAIMED[_k]["text"]
    _i = _t.rfind(" Sampling, not proof")
    CLAIMED[_k]["text"] = _t[:_i] + f" Round 9 (DESIGN §13.9): {_v}." + _t[_i:]

ROUND10 = {
 "C03": "a solid's material replaced by another solid between two temperature steps",
 "C04": "snapshots written while edge assemblies are in a third-core model, the core grid pitch changed between two writes",
 "C16": "keep-sets naming one of a pair of parameters whose setters write each other",
 "C01": "a batch (extend) naming one object twice",
 "C12": "the duct (second HT9 component, another input temperature) as the fuel blocks' designated target",
 "C13": "a flux solution (multigroup flux and its scalar) computed with edge assemblies present and joined before their removal, tables of six rows on the corners",
 "C14": "cross sections of pool assemblies that sat on a symmetry line, looked at on every step",
 "C02": "an isotope that is not one of its element's natural ones, element selections at block level",
}
for _k, _v in ROUND10.items():
    _t = CLAIMED[_k]["text"]
    _i = _t.rfind(" Sampling, not proof")
    CLAIMED[_k]["text"] = _t[:_i] + f" Round 10 (DESIGN §13.10): {_v}." + _t[_i:]

PENDING_IDS = ["C01", "C02", "C03", "C04", "C05", "C12", "C13", "C14", "C16"]
PENDING = {p: "check not built yet in this session (claimed in DESIGN.md; will move to checks when its oracle runs clean)" for p in PENDING_IDS if p not in CLAIMED}

def main():
    checks = []
    for pid in sorted(CLAIMED):
        c = CLAIMED[pid]
        checks.append({
            "property_id": pid,
            "quick_cmd": f"./check {pid} quick",
            "thorough_cmd": f"./check {pid} thorough",
            "evidence_file": f"/verif/evidence/{pid}.json",
            "replay_cmd_template": "./check replay {path}",
            "engine": "armi-dst",
            "level_claimed": {"category": "exploration", "text": c["text"], "design_ref": c["design_ref"]},
            "level_note": c["note"],
            "technique": c["technique"],
        })
    na = [{"property_id": k, "reason": v} for k, v in sorted({**NA, **PENDING}.items())]
    m = {
        "version": 1,
        "setup_cmd": "/venv/bin/python -c \"import armi, h5py, numpy; print('armi', armi.__version__)\"",
        "hooks": {
            "guard": "TERRAPOWER_ARMI_VERIF (unused: every seam already exists as a module attribute or plugin hook, so /repo carries no instrumentation)",
            "enable": "nothing to enable; checks import /repo's working tree directly and rebind module attributes at run time (sim/armiboot.py)",
            "baseline_off_cmd": "cd /repo && /venv/bin/python -m pytest -ra -q -p no:cacheprovider --timeout=900 --continue-on-collection-errors",
            "source_commits": [],
            "add_only": True,
        },
        "engines": [{
            "name": "armi-dst",
            "path": "/verif/check",
            "serves_properties": sorted(CLAIMED),
            "kind_free_text": "deterministic simulation with fault injection: seeded plan -> forked child runs real armi under virtual clock / simulated mv,cp / scripted interface actors -> oracles against executable reference models -> ddmin -> replay file",
        }],
        "checks": checks,
        "notes": "Exit codes: 0 held, 1 VIOLATION line + replay file, 2 harness error. VERIF_SEED selects the batch; VERIF_RUNS / VERIF_BUDGET_S / VERIF_WORKERS override sizes. Fix commits in /repo: see known_findings.json (status=fixed).",
        "not_applicable": na,
    }
    with open(os.path.join(HERE, "MANIFEST.json"), "w") as f:
        json.dump(m, f, indent=1)
    import jsonschema
    jsonschema.validate(m, json.load(open("/root/.vp/MANIFEST.schema.json")))
    print("MANIFEST ok:", len(checks), "checks,", len(na), "n/a")

if __name__ == "__main__":
    main()
