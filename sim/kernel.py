"""Simulator kernel: seed derivation, canonical encoding, digests, outcome classes.

Nothing in here imports armi.  One integer (VERIF_SEED) decides everything: run i of property P
uses seed_i = H(VERIF_SEED, P, i); a run expands seed_i through one random.Random into an
explicit plan (plain data), and executing a plan never draws randomness or reads a real clock.
"""
import hashlib
import json
import math
import os
import random
import traceback

VERIF_ROOT = os.path.dirname(os.path.dirname(os.path.abspath(__file__)))
REPO_ROOT = os.environ.get("VERIF_REPO", "/repo")
HASHSEED = "0"

PASS = "pass"
VIOLATION = "violation"
REJECTED = "rejected"  # configuration refused by armi's own validation: counted, not judged
HARNESS = "harness_error"


def subseed(base, prop, index):
    h = hashlib.sha256(f"{int(base)}|{prop}|{int(index)}".encode()).digest()
    return int.from_bytes(h[:8], "big")


def rng_for(seed):
    return random.Random(seed)


def canon(x):
    """Canonicalise a value into JSON-able data with deterministic text (no ids, no addresses)."""
    try:
        import numpy as np
    except Exception:  # pragma: no cover
        np = None
    if x is None or isinstance(x, (bool, str)):
        return x
    if isinstance(x, int):
        return x
    if isinstance(x, float):
        if math.isnan(x):
            return "NaN"
        if math.isinf(x):
            return "Inf" if x > 0 else "-Inf"
        return float(x)
    if np is not None:
        if isinstance(x, np.generic):
            return canon(x.item())
        if isinstance(x, np.ndarray):
            return {"nd": list(x.shape), "dt": x.dtype.kind, "v": canon(x.tolist())}
    if isinstance(x, (list, tuple)):
        return [canon(v) for v in x]
    if isinstance(x, dict):
        return {str(k): canon(v) for k, v in sorted(x.items(), key=lambda kv: str(kv[0]))}
    if isinstance(x, (set, frozenset)):
        return sorted((canon(v) for v in x), key=lambda v: json.dumps(v, sort_keys=True))
    if isinstance(x, bytes):
        return x.decode("latin1")
    return f"<{type(x).__name__}>"


def jdump(x):
    return json.dumps(canon(x), sort_keys=True, separators=(",", ":"))


def digest(x):
    return hashlib.sha256(jdump(x).encode()).hexdigest()


class EventLog:
    """Ordered event log of one run; its digest is what the determinism self-test compares."""

    def __init__(self):
        self.events = []
        self._h = hashlib.sha256()

    def add(self, *fields):
        line = jdump(list(fields))
        self.events.append(line)
        self._h.update(line.encode())
        self._h.update(b"\n")

    def digest(self):
        return self._h.hexdigest()

    def __len__(self):
        return len(self.events)


class OracleFailure(Exception):
    """Raised by an oracle when the property does not hold on this run."""

    def __init__(self, oracle, msg, detail=None):
        Exception.__init__(self, f"{oracle}: {msg}")
        self.oracle = oracle
        self.msg = msg
        self.detail = detail or {}


class Rejected(Exception):
    """The configuration was refused by armi's own input validation (not judged)."""


def classify_exception(exc):
    """Innermost frame inside the repository => armi raised where the model expected success
    (what a mutant that simply crashes looks like) => violation; otherwise the harness is at fault."""
    tb = traceback.extract_tb(exc.__traceback__)
    inner = tb[-1].filename if tb else ""
    where = [f"{os.path.basename(f.filename)}:{f.lineno}:{f.name}" for f in tb[-6:]]
    in_repo = os.path.abspath(inner).startswith(os.path.abspath(REPO_ROOT) + os.sep)
    if not in_repo:
        # exceptions raised by libraries (h5py, numpy) on behalf of armi code: look for the
        # innermost frame that is either repo or verif code
        for f in reversed(tb):
            p = os.path.abspath(f.filename)
            if p.startswith(os.path.abspath(REPO_ROOT) + os.sep):
                in_repo = True
                break
            if p.startswith(VERIF_ROOT + os.sep):
                break
    return in_repo, where


def result(status, **kw):
    r = {
        "status": status,
        "oracle": None,
        "msg": "",
        "detail": {},
        "digest": "",
        "nevents": 0,
        "stats": {},
        "probes": {},
        "sim": {},
        "sig": "",
        "nontrivial": False,
    }
    r.update(kw)
    return r
