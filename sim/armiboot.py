"""Boot armi inside the simulator and take ownership of its seams.  No hook in /repo is needed.

Seams (all pre-existing module attributes / plugin hooks):
  * wall clock       : module attribute ``time`` of armi.utils, databaseInterface, operator,
                       codeTiming, cores  -> VirtualClock
  * mv/cp + getsize  : module attribute ``os`` of armi.utils -> SimOS (delayed completion on the
                       virtual clock)
  * parties          : ArmiPlugin.exposeInterfaces -> sim actors described by SCENARIO
  * extra parameters : ArmiPlugin.defineParameters (fixed set, defined once in the parent)
  * extra flags      : Flags.extend at run time (what App.registerUserPlugins does)
  * FAST_PATH        : context.APP_DATA rebound per run to <scratch>/fast
  * git / lscpu      : stubbed
"""
import heapq
import os
import random
import shlex
import shutil
import sys
import time as _realtime

os.environ.setdefault("OMP_NUM_THREADS", "1")
os.environ.setdefault("OPENBLAS_NUM_THREADS", "1")
os.environ.setdefault("MKL_NUM_THREADS", "1")
os.environ.setdefault("HDF5_USE_FILE_LOCKING", "FALSE")

from sim.kernel import REPO_ROOT  # noqa: E402

if REPO_ROOT not in sys.path:
    sys.path.insert(0, REPO_ROOT)

# ----------------------------------------------------------------------------------------------
# scenario: what the verification plugin exposes in this run (set by the world before building
# an operator).  {"actors": [ {name, order, function, kwargs{enabled,bolForce,reverseAtEOL}} ],
#                 "director": object with on_hook(actor, hook, args)}
SCENARIO = {"actors": [], "director": None}

HOOKS = ("Init", "BOL", "BOC", "EveryNode", "Coupled", "EOC", "EOL", "Error")


class VirtualClock:
    """The only clock armi sees.  time() is simulated seconds; sleep() advances it and fires due
    events (pending filesystem completions).  No real sleep anywhere."""

    def __init__(self, start=1.7e9):
        self.now = float(start)
        self.slept = 0.0
        self.nsleeps = 0
        self._q = []
        self._seq = 0
        self.jumps = 0

    # -- what armi calls
    def time(self):
        return self.now

    def sleep(self, dt):
        self.nsleeps += 1
        self.slept += dt
        self.advance(dt)

    def __getattr__(self, name):  # strftime, ctime, localtime, perf_counter ... (not observable)
        return getattr(_realtime, name)

    # -- what the simulator calls
    def advance(self, dt):
        target = self.now + dt
        while self._q and self._q[0][0] <= target:
            at, _seq, fn = heapq.heappop(self._q)
            self.now = max(self.now, at)
            fn()
        self.now = target

    def jump(self, dt):
        """Clock skew/jump fault: the reading changes, pending events keep their due offsets."""
        self.jumps += 1
        self._q = [(at + dt, s, fn) for (at, s, fn) in self._q]
        heapq.heapify(self._q)
        self.now += dt

    def after(self, dt, fn):
        self._seq += 1
        heapq.heappush(self._q, (self.now + dt, self._seq, fn))

    def pending(self):
        return len(self._q)


class _SimPath:
    def __init__(self, simos):
        self._s = simos

    def getsize(self, p):
        return self._s._getsize(p)

    def __getattr__(self, name):
        return getattr(os.path, name)


class SimOS:
    """Delegating stand-in for the ``os`` module inside armi.utils.

    system('cp "a" "b"') / system('mv "a" "b"') are parsed and complete at now+latency on the
    virtual clock.  Only behaviour a real client of a lagging filesystem can observe is modelled:
    after cp returns the destination exists but its size lags until completion; after mv the
    destination is absent (or still the old file) until completion.  Completion performs the real
    copy / rename.  Latency is chosen by the plan and is always below armi's own time-outs.
    """

    def __init__(self, clock, latencies=None, log=None):
        self._clock = clock
        self._lat = list(latencies or [])  # consumed in order; default 0
        self._log = log
        self.path = _SimPath(self)
        self.stats = {"cp": 0, "mv": 0, "cp_delayed": 0, "mv_delayed": 0, "polls_lagging": 0}
        self._lagging = {}  # dst -> True while a completion is pending
        self.on_copy_done = None  # simulator callback: a sync copy reached the working directory

    def __getattr__(self, name):
        return getattr(os, name)

    def _next_latency(self):
        if self._lat:
            return self._lat.pop(0)
        return 0.0

    def _getsize(self, p):
        if self._lagging.get(os.path.abspath(p)):
            self.stats["polls_lagging"] += 1
        return os.path.getsize(p)

    def system(self, cmd):
        parts = shlex.split(cmd)
        if len(parts) != 3 or parts[0] not in ("cp", "mv"):
            raise RuntimeError(f"SimOS: unexpected shell command {cmd!r}")
        op, src, dst = parts
        lat = self._next_latency()
        self.stats[op] += 1
        if self._log is not None:
            self._log.add("fs", op, os.path.basename(src), os.path.basename(dst), lat)
        if op == "cp":
            if lat <= 0:
                shutil.copyfile(src, dst)
                if self.on_copy_done:
                    self.on_copy_done(dst)
                return 0
            self.stats["cp_delayed"] += 1
            size = os.path.getsize(src)
            with open(src, "rb") as f, open(dst, "wb") as g:
                g.write(f.read(size // 2))
            key = os.path.abspath(dst)
            self._lagging[key] = True

            def done(src=src, dst=dst, key=key):
                shutil.copyfile(src, dst)
                self._lagging.pop(key, None)
                if self.on_copy_done:
                    self.on_copy_done(dst)

            self._clock.after(lat, done)
            return 0
        # mv
        if lat <= 0:
            shutil.move(src, dst)
            return 0
        self.stats["mv_delayed"] += 1
        key = os.path.abspath(dst)
        self._lagging[key] = True

        def done(src=src, dst=dst, key=key):
            shutil.move(src, dst)
            self._lagging.pop(key, None)

        self._clock.after(lat, done)
        return 0


_BOOTED = False
CLOCK = None
SIMOS = None


def _verif_param_defs():
    """A fixed set of untyped persistent parameters on every level, so that the database
    encoder's own strategy selection is what gets exercised (no setter, mostly no default)."""
    from armi.reactor import parameters
    from armi.reactor.parameters import ParamLocation

    def build():
        pDefs = parameters.ParameterDefinitionCollection()
        with pDefs.createBuilder(location=ParamLocation.AVERAGE, saveToDB=True) as pb:
            for k in range(6):
                pb.defParam(f"vP{k}", units="", description=f"verification slot {k}", default=None)
            pb.defParam("vSent", units="", description="verification sentinel", default=None)
            pb.defParam("vF0", units="", description="verification float with default", default=0.0)
            pb.defParam("vI0", units="", description="verification int with default", default=-1)
            pb.defParam("vS0", units="", description="verification str with default", default="")
            pb.defParam("vN0", units="", description="verification no-default slot")
            pb.defParam(
                "vVol",
                units="",
                description="verification volume-integrated slot",
                default=None,
                location=ParamLocation.VOLUME_INTEGRATED,
            )
        return pDefs

    return build


def boot():
    """Import and configure armi once, in the parent, and rebind the seams."""
    global _BOOTED, CLOCK, SIMOS
    if _BOOTED:
        return
    import armi
    from armi import apps, interfaces, plugins

    class VerifPlugin(plugins.ArmiPlugin):
        @staticmethod
        @plugins.HOOKIMPL
        def exposeInterfaces(cs):
            out = []
            for spec in SCENARIO.get("actors", []):
                cls = make_actor_class(spec)
                out.append(interfaces.InterfaceInfo(spec["order"], cls, dict(spec.get("kwargs", {}))))
            return out

        @staticmethod
        @plugins.HOOKIMPL
        def defineParameters():
            from armi.reactor import assemblies, blocks, cores, reactors
            from armi.reactor.components import Component

            build = _verif_param_defs()
            return {
                reactors.Reactor: build(),
                cores.Core: build(),
                assemblies.Assembly: build(),
                blocks.Block: build(),
                Component: build(),
            }

    class VApp(apps.App):
        name = "armi"

        def __init__(self):
            apps.App.__init__(self)
            self._pm.register(VerifPlugin)

    armi.configure(VApp())

    from armi import context, runLog
    import armi.bookkeeping.db.database as database
    import armi.bookkeeping.db.databaseInterface as databaseInterface
    import armi.bookkeeping.report.reportingUtils as reportingUtils
    import armi.operators.operator as operator
    import armi.reactor.cores as cores
    import armi.utils as utils
    import armi.utils.codeTiming as codeTiming

    # stubs (not observable by any property): git describe, lscpu banner
    class _Shutil:
        def which(self, _name):
            return None

        def __getattr__(self, name):
            return getattr(shutil, name)

    database.shutil = _Shutil()
    reportingUtils.writeWelcomeHeaders = lambda o, cs: None
    operator.reportingUtils.writeWelcomeHeaders = lambda o, cs: None
    runLog.setVerbosity("error")

    _BOOTED = True
    # importing the blueprint machinery in the parent keeps its cost out of every child
    from armi.reactor import blueprints  # noqa: F401
    from armi.reactor import reactors  # noqa: F401
    from armi import operators, settings  # noqa: F401

    _ = (context, databaseInterface, cores, utils, codeTiming)


def install_seams(scratch, seed, latencies=None, log=None, clock_start=1.7e9):
    """Per run (in the child): fresh clock, fresh SimOS, private FAST_PATH, seeded global PRNGs."""
    global CLOCK, SIMOS
    import numpy as np
    from armi import context
    import armi.bookkeeping.db.databaseInterface as databaseInterface
    import armi.operators.operator as operator
    import armi.reactor.cores as cores
    import armi.utils as utils
    import armi.utils.codeTiming as codeTiming

    CLOCK = VirtualClock(clock_start)
    SIMOS = SimOS(CLOCK, latencies, log)
    for mod in (utils, databaseInterface, operator, codeTiming, cores):
        mod.time = CLOCK
    utils.os = SIMOS
    fast = os.path.join(scratch, "fast")
    os.makedirs(fast, exist_ok=True)
    context.APP_DATA = fast
    random.seed(seed)
    np.random.seed(seed % (2**32))
    return CLOCK, SIMOS


_ACTOR_BASE = None


def actor_base():
    global _ACTOR_BASE
    if _ACTOR_BASE is not None:
        return _ACTOR_BASE
    from armi import interfaces

    class SimActor(interfaces.Interface):
        """A party in the interface stack whose behaviour at every hook is read from the plan."""

        name = None
        function = None
        isSimActor = True

        def _d(self, hook, *args):
            return SCENARIO["director"].on_hook(self, hook, args)

        def interactInit(self):
            interfaces.Interface.interactInit(self)
            return self._d("Init")

        def interactBOL(self):
            interfaces.Interface.interactBOL(self)
            return self._d("BOL")

        def interactBOC(self, cycle=None):
            return self._d("BOC", cycle)

        def interactEveryNode(self, cycle, node):
            return self._d("EveryNode", cycle, node)

        def interactCoupled(self, iteration):
            return self._d("Coupled", iteration)

        def interactEOC(self, cycle=None):
            return self._d("EOC", cycle)

        def interactEOL(self):
            return self._d("EOL")

        def interactError(self):
            return self._d("Error")

        def getTightCouplingValue(self):
            return SCENARIO["director"].coupling_value(self)

    _ACTOR_BASE = SimActor
    return SimActor


def make_actor_class(spec):
    """Actor class for one spec.  spec["extends"] names another actor of the scenario: the class then
    derives from that actor's class (exercises the same-function replacement rule of addInterface)."""
    base = actor_base()
    parent = base
    if spec.get("extends"):
        for other in SCENARIO.get("actors", []):
            if other["name"] == spec["extends"]:
                parent = make_actor_class(other)
                break
    key = (spec["name"], spec.get("function"), spec.get("extends"))
    cache = SCENARIO.setdefault("_classes", {})
    if key in cache and cache[key][0] is parent:
        return cache[key][1]
    body = {"name": spec["name"], "function": spec.get("function"), "spec": spec}
    if spec.get("needs"):
        # declared dependencies: helper interfaces (SCENARIO["helpers"]) or other actors, by name

        def getDependencies(cls, cs, _needs=tuple(spec["needs"])):
            out = []
            for nm in _needs:
                for other in list(SCENARIO.get("helpers", [])) + list(SCENARIO.get("actors", [])):
                    if other["name"] == nm:
                        out.append(make_actor_class(other))
                        break
            return out

        body["getDependencies"] = classmethod(getDependencies)
    cls = type("SimActor_" + spec["name"], (parent,), body)
    cache[key] = (parent, cls)
    return cls


def wrap_builtins(o, director):
    """Record calls of the built-in interfaces' hooks: wrap the bound methods on the instance."""
    for itf in o.interfaces:
        if getattr(itf, "isSimActor", False):
            continue
        for hook in HOOKS:
            mname = "interact" + hook
            orig = getattr(itf, mname, None)
            if orig is None:
                continue

            def wrapper(*args, _orig=orig, _itf=itf, _hook=hook, **kw):
                director.on_builtin(_itf, _hook, args, "enter")
                try:
                    ret = _orig(*args, **kw)
                finally:
                    director.on_builtin(_itf, _hook, args, "exit")
                return ret

            setattr(itf, mname, wrapper)
