"""Generated ARMI inputs (settings + blueprints) for simulated runs.  Written into the run's scratch
directory; nothing is ever written under /repo.  Pure text generation, no armi imports."""

HEX_RING2 = [(1, 0), (0, 1), (-1, 1), (-1, 0), (0, -1), (1, -1)]


def hex_cells(rings):
    """Axial (i, j) indices of a full hexagon with the given number of rings."""
    n = rings - 1
    out = []
    for i in range(-n, n + 1):
        for j in range(-n, n + 1):
            if abs(i + j) <= n:
                out.append((i, j))
    return out


def hex_ring(i, j):
    return max(abs(i), abs(j), abs(i + j)) + 1


BLOCKS = """blocks:
    grid plate: &block_grid_plate
        grid:
            shape: Hexagon
            material: HT9
            Tinput: 25.0
            Thot: 450.0
            ip: 15.3
            mult: 1.0
            op: 16.0
        coolant:
            shape: DerivedShape
            material: Sodium
            Tinput: 450.0
            Thot: 450.0
        intercoolant:
            shape: Hexagon
            material: Sodium
            Tinput: 450.0
            Thot: 450.0
            ip: grid.op
            mult: 1.0
            op: 16.8
    fuel: &block_fuel
        fuel:
            shape: Circle
            material: UZr
            Tinput: 25.0
            Thot: 600.0
            id: 0.0
            mult: 169.0
            od: 0.86
        clad:
            shape: Circle
            material: HT9
            Tinput: 25.0
            Thot: 470.0
            id: 1.0
            mult: fuel.mult
            od: 1.09
        bond:
            shape: Circle
            material: Sodium
            Tinput: 450.0
            Thot: 450.0
            id: fuel.od
            mult: fuel.mult
            od: clad.id
        wire:
            shape: Helix
            material: HT9
            Tinput: 25.0
            Thot: 450.0
            axialPitch: 30
            helixDiameter: 1.20
            id: 0.0
            mult: fuel.mult
            od: 0.10056
        coolant:
            shape: DerivedShape
            material: Sodium
            Tinput: 450.0
            Thot: 450.0
        duct:
            shape: Hexagon
            material: HT9
            Tinput: 25.0
            Thot: 450.0
            ip: 16.0
            mult: 1.0
            op: 16.7
        intercoolant:
            shape: Hexagon
            material: Sodium
            Tinput: 450.0
            Thot: 450.0
            ip: duct.op
            mult: 1.0
            op: 16.8
    dummy: &block_dummy
        flags: dummy
        coolant:
            shape: Hexagon
            material: Sodium
            Tinput: 25.0
            Thot: 450.0
            ip: 0.0
            mult: 1.0
            op: 16.8
    pin fuel: &block_pin_fuel
        grid name: pins
        fuel:
            shape: Circle
            material: UZr
            Tinput: 25.0
            Thot: 600.0
            id: 0.0
            od: 0.86
            latticeIDs: [F]
        clad:
            shape: Circle
            material: HT9
            Tinput: 25.0
            Thot: 470.0
            id: 1.0
            od: 1.09
            latticeIDs: [F]
        bond:
            shape: Circle
            material: Sodium
            Tinput: 450.0
            Thot: 450.0
            id: fuel.od
            od: clad.id
            latticeIDs: [F]
        coolant:
            shape: DerivedShape
            material: Sodium
            Tinput: 450.0
            Thot: 450.0
        duct:
            shape: Hexagon
            material: HT9
            Tinput: 25.0
            Thot: 450.0
            ip: 16.0
            mult: 1.0
            op: 16.7
        intercoolant:
            shape: Hexagon
            material: Sodium
            Tinput: 450.0
            Thot: 450.0
            ip: duct.op
            mult: 1.0
            op: 16.8
    solid plate: &block_solid_plate
        plate:
            shape: Hexagon
            material: HT9
            Tinput: 25.0
            Thot: 450.0
            ip: 0.0
            mult: 1.0
            op: 16.717522615847596
    shield: &block_shield
        duct:
            shape: Hexagon
            material: HT9
            Tinput: 25.0
            Thot: 450.0
            ip: 16.0
            mult: 1.0
            op: 16.7
        coolant:
            shape: DerivedShape
            material: Sodium
            Tinput: 450.0
            Thot: 450.0
        intercoolant:
            shape: Hexagon
            material: Sodium
            Tinput: 450.0
            Thot: 450.0
            ip: duct.op
            mult: 1.0
            op: 16.8
    plenum: &block_plenum
        axial expansion target component: clad
        clad:
            shape: Circle
            material: HT9
            Tinput: 25.0
            Thot: 470.0
            id: 1.0
            mult: 169.0
            od: 1.09
        gap:
            shape: Circle
            material: Void
            Tinput: 25.0
            Thot: 25.0
            id: 0.0
            mult: clad.mult
            od: clad.id
        coolant:
            shape: DerivedShape
            material: Sodium
            Tinput: 450.0
            Thot: 450.0
        duct:
            shape: Hexagon
            material: HT9
            Tinput: 25.0
            Thot: 450.0
            ip: 16.0
            mult: 1.0
            op: 16.7
        intercoolant:
            shape: Hexagon
            material: Sodium
            Tinput: 450.0
            Thot: 450.0
            ip: duct.op
            mult: 1.0
            op: 16.8
"""


def cart_cells(n, symmetry="full"):
    """(i, j) indices of a Cartesian core.  Through the centre assembly: (2n+1) x (2n+1) cells centred
    on (0, 0).  Otherwise (the origin is a cell corner): (2n+2) x (2n+2) cells, (0, 0) being the first
    cell of the upper right quadrant.  For quarter symmetry only the i >= 0, j >= 0 quadrant is modelled."""
    through = "through center" in symmetry or symmetry == "full"
    lo = 0 if symmetry.startswith("quarter") else (-n if through else -n - 1)
    return [(i, j) for i in range(lo, n + 1) for j in range(lo, n + 1)]


def cart_ring(i, j):
    return max(abs(i), abs(j)) + 1


def _cartesian_blocks(text):
    """The same block designs with square ducts: Hexagon(ip, op) -> Square(widthInner, widthOuter)."""
    return (
        text.replace("shape: Hexagon", "shape: Square")
        .replace("ip: grid.op", "widthInner: grid.widthOuter")
        .replace("ip: duct.op", "widthInner: duct.widthOuter")
        .replace("            ip: ", "            widthInner: ")
        .replace("            op: ", "            widthOuter: ")
    )


def _in_block(text, anchor, old, new):
    """Replace old by new inside one block design (from its anchor line to the next design)."""
    start = text.index(anchor)
    nxt = text.find(": &block_", start + len(anchor))
    end = text.rfind("\n", 0, nxt) if nxt >= 0 else len(text)
    body = text[start:end]
    assert old in body, (anchor, old)
    return text[:start] + body.replace(old, new) + text[end:]


RECT_DUCT = (
    "            shape: Rectangle\n            material: HT9\n            Tinput: 25.0\n            Thot: 450.0\n"
    "            lengthInner: 16.0\n            lengthOuter: 16.7\n            widthInner: 16.0\n            mult: 1.0\n            widthOuter: 16.7\n"
)
SQUARE_DUCT = (
    "            shape: Square\n            material: HT9\n            Tinput: 25.0\n            Thot: 450.0\n"
    "            widthInner: 16.0\n            mult: 1.0\n            widthOuter: 16.7\n"
)


def blueprint_text(spec):
    """spec: {rings, symmetry ('full'|'third periodic'), cells: [[i,j,type],...] or None,
    nfuel (fuel blocks per assembly), heights [..], plate (bool), plenum (bool), sfp (bool),
    geom ('hex'|'hex_corners_up')}"""
    nfuel = int(spec.get("nfuel", 1))
    plate = bool(spec.get("plate", False))
    plenum = bool(spec.get("plenum", False))
    fuel_anchor = "*block_pin_fuel" if spec.get("pins") else "*block_fuel"
    blocks = (["*block_solid_plate"] if spec.get("solid_plate") else []) + (["*block_grid_plate"] if plate else []) + [fuel_anchor] * nfuel + (["*block_shield"] if spec.get("shield") else []) + (["*block_plenum"] if plenum else [])
    if spec.get("dummy"):
        blocks.append("*block_dummy")
    nb = len(blocks)
    heights = list(spec.get("heights") or [25.0] * nb)
    heights = (heights * nb)[:nb]
    xs = ["A"] * nb
    cart = spec.get("geom") == "cartesian"
    blocks_text = _cartesian_blocks(BLOCKS) if cart else BLOCKS
    if spec.get("liner") and not spec.get("pins"):
        # a solid liner of user-defined composition (material Custom) between bond and clad
        blocks_text = _in_block(
            blocks_text,
            "    fuel: &block_fuel",
            "            od: clad.id\n",
            "            od: liner.id\n        liner:\n            shape: Circle\n            material: Custom\n            isotopics: liner iso\n"
            "            Tinput: 25.0\n            Thot: 450.0\n            id: 0.97\n            mult: fuel.mult\n            od: clad.id\n",
        )
        blocks_text = "custom isotopics:\n    liner iso:\n        input format: mass fractions\n        density: 6.5\n        ZR: 1.0\n" + blocks_text
    if spec.get("voidgap") and not spec.get("pins") and not spec.get("liner"):
        # a fuel slug that fills the cladding: the gap between them is a Void whose hot area is slightly
        # negative (the slug has outgrown the cladding's bore) - armi allows that for a Void
        blocks_text = _in_block(blocks_text, "    fuel: &block_fuel", "            mult: 169.0\n            od: 0.86\n", "            mult: 169.0\n            od: 0.9990\n")
        blocks_text = _in_block(
            blocks_text,
            "    fuel: &block_fuel",
            "            material: Sodium\n            Tinput: 450.0\n            Thot: 450.0\n            id: fuel.od\n",
            "            material: Void\n            Tinput: 450.0\n            Thot: 450.0\n            id: fuel.od\n",
        )
    if cart and spec.get("rect_duct"):
        # the fuel blocks' duct is the same square, declared as a Rectangle (a Square is a Rectangle
        # subclass; axial linkage is between components of identical type only)
        blocks_text = _in_block(blocks_text, "    fuel: &block_fuel", SQUARE_DUCT, RECT_DUCT)
        blocks_text = _in_block(blocks_text, "    fuel: &block_fuel", "widthInner: duct.widthOuter", "widthInner: duct.widthOuter")
    if spec.get("fuel_target"):
        # a designated (non-default) axial-expansion target on the fuel blocks
        blocks_text = blocks_text.replace("    fuel: &block_fuel\n", f"    fuel: &block_fuel\n        axial expansion target component: {spec['fuel_target']}\n")
    lines = [blocks_text, "assemblies:"]
    lines.append(f"    heights: &hts [{', '.join(str(float(h)) for h in heights)}]")
    lines.append(f"    axial mesh points: &amp [{', '.join('1' for _ in range(nb))}]")
    for name, spec_id, enr in (("igniter fuel", "IC", 0.11), ("outer fuel", "OC", 0.15)):
        ablocks, aheights = blocks, None
        if spec_id == "OC" and spec.get("oc_extra_fuel"):
            # the outer assemblies have one fuel block more: everything above the fuel sits one index higher
            k = (1 if spec.get("solid_plate") else 0) + (1 if plate else 0) + nfuel
            ablocks = blocks[:k] + [fuel_anchor] + blocks[k:]
            aheights = heights[:k] + [heights[k - 1]] + heights[k:]
        lines.append(f"    {name}:")
        lines.append(f"        specifier: {spec_id}")
        if spec.get("nozzle"):
            # parameters the assembly design states itself (category "assign in blueprints")
            lines.append(f"        nozzleType: {'Inner' if spec_id == 'IC' else 'Outer'}")
            lines.append(f"        crCurrentElevation: {10.0 if spec_id == 'IC' else 20.0}")
        lines.append(f"        blocks: [{', '.join(ablocks)}]")
        if aheights is None:
            lines.append("        height: *hts")
            lines.append("        axial mesh points: *amp")
        else:
            lines.append(f"        height: [{', '.join(str(float(h)) for h in aheights)}]")
            lines.append(f"        axial mesh points: [{', '.join('1' for _ in ablocks)}]")
        mods_u = ["''" if "fuel" not in b else str(enr) for b in ablocks]
        mods_z = ["''" if "fuel" not in b else "0.06" for b in ablocks]
        lines.append("        material modifications:")
        lines.append(f"            U235_wt_frac: [{', '.join(mods_u)}]")
        lines.append(f"            ZR_wt_frac: [{', '.join(mods_z)}]")
        lines.append(f"        xs types: [{', '.join('A' for _ in ablocks)}]")
    co = spec.get("core_origin") or [0.0, 0.0, 0.0]
    so = spec.get("sfp_origin") or [5000.0, 5000.0, 6000.0]
    lines.append("systems:")
    lines.append("    core:")
    lines.append("        grid name: core")
    lines.append("        origin:")
    lines.append(f"            x: {float(co[0])}")
    lines.append(f"            y: {float(co[1])}")
    lines.append(f"            z: {float(co[2])}")
    if spec.get("sfp", True):
        lines.append("    Spent Fuel Pool:")
        lines.append("        type: sfp")
        lines.append("        grid name: sfp")
        lines.append("        origin:")
        lines.append(f"            x: {float(so[0])}")
        lines.append(f"            y: {float(so[1])}")
        lines.append(f"            z: {float(so[2])}")
    lines.append("grids:")
    lines.append("    core:")
    lines.append(f"      geom: {spec.get('geom', 'hex')}")
    lines.append(f"      symmetry: {spec.get('symmetry', 'full')}")
    lines.append("      grid contents:")
    cells = spec.get("cells")
    if cells is None and cart:
        cells = [[i, j, "IC" if cart_ring(i, j) == 1 else "OC"] for (i, j) in cart_cells(int(spec.get("rings", 2)) - 1, "full even" if spec.get("even") and spec.get("symmetry", "full") == "full" else spec.get("symmetry", "full"))]
    if cells is None:
        cells = [[i, j, "IC" if hex_ring(i, j) == 1 else "OC"] for (i, j) in hex_cells(int(spec.get("rings", 2)))]
    if cart:
        k = lines.index("      grid contents:")
        lines[k:k] = ["      lattice pitch:", "        x: 16.8", "        y: 16.8"]
    for i, j, t in cells:
        lines.append(f"        [{i}, {j}]: {t}")
    if spec.get("pins") and cart:
        lines.append("    pins:")
        lines.append("      geom: cartesian")
        lines.append("      symmetry: full")
        lines.append("      lattice pitch:")
        lines.append("        x: 1.2")
        lines.append("        y: 1.2")
        lines.append("      grid contents:")
        n = int(spec.get("pinrings", 2)) - 1
        for (i, j) in cart_cells(n):
            lines.append(f"        [{i}, {j}]: F")
    elif spec.get("pins"):
        lines.append("    pins:")
        lines.append("      geom: hex_corners_up")
        lines.append("      symmetry: full")
        lines.append("      lattice pitch:")
        lines.append("        x: 1.2")
        lines.append("      grid contents:")
        for (i, j) in hex_cells(int(spec.get("pinrings", 2))):
            if spec.get("pinhole") and (i, j) == (1, 0):
                continue  # one empty position: the lattice is not invariant under rotation
            lines.append(f"        [{i}, {j}]: F")
    if spec.get("sfp", True):
        lines.append("    sfp:")
        lines.append("      geom: cartesian")
        lines.append("      symmetry: full")
        lines.append("      lattice pitch:")
        lines.append("        x: 32.0")
        lines.append("        y: 32.0")
        if spec.get("sfp_stock"):
            # assemblies stored in the pool from the start
            lines.append("      grid contents:")
            for i in range(int(spec["sfp_stock"])):
                lines.append(f"        [{i}, 0]: {'IC' if i % 2 == 0 else 'OC'}")
    return "\n".join(lines) + "\n"


SHUFFLE_LOGIC = '''"""Plan-driven fuel handler used by simulated runs (written into the scratch directory)."""
from armi.physics.fuelCycle.fuelHandlers import FuelHandler


class PlanFuelHandler(FuelHandler):
    def chooseSwaps(self, factorList):
        from sim import armiboot

        armiboot.SCENARIO["director"].choose_swaps(self)
'''
