"""Fork-per-run pool.

Every run executes in a forked child of one pristine parent, so that process-global armi state
(GLOBAL_SERIAL_NUM, class-level Parameter.assigned flags, caches, FAST_PATH) is identical at the
start of every run regardless of which worker slot executes it.  A child that dies or times out
is a harness error carrying its task id — never a pass and never a violation.
"""
import faulthandler
import os
import pickle
import select
import signal
import sys
import time


def _child(fn, task, wfd, timeout):
    try:
        try:
            signal.signal(signal.SIGINT, signal.SIG_DFL)
            if os.environ.get("VERIF_CHILD_OUTPUT") != "1":
                dn = os.open(os.devnull, os.O_WRONLY)
                os.dup2(dn, 1)
                os.dup2(dn, 2)
            faulthandler.enable()
            if timeout:
                faulthandler.dump_traceback_later(max(1.0, timeout - 2.0), exit=False)
            out = fn(task)
            payload = pickle.dumps(("ok", out), protocol=4)
        except BaseException as e:  # noqa: BLE001 - the child must always report
            import traceback

            payload = pickle.dumps(
                ("exc", f"{type(e).__name__}: {e}\n{traceback.format_exc()}"), protocol=4
            )
        with os.fdopen(wfd, "wb", closefd=True) as w:
            w.write(payload)
            w.flush()
    finally:
        os._exit(0)


def run_tasks(fn, tasks, workers=16, timeout=120.0, wall_deadline=None, on_result=None):
    """Run fn(task) for each task in a forked child; yield (task_index, kind, value).

    kind is "ok" (value = fn's return), "exc" (child raised; value = text), "dead" (child vanished
    or returned garbage) or "timeout".  Tasks not started before wall_deadline are skipped.
    """
    tasks = list(tasks)
    pending = list(range(len(tasks)))
    pending.reverse()
    live = {}  # rfd -> [pid, idx, start, chunks]
    results = []
    while pending or live:
        while pending and len(live) < workers:
            if wall_deadline is not None and time.time() > wall_deadline:
                pending.clear()
                break
            idx = pending.pop()
            rfd, wfd = os.pipe()
            sys.stdout.flush()
            sys.stderr.flush()
            pid = os.fork()
            if pid == 0:
                os.close(rfd)
                for fd in list(live):
                    try:
                        os.close(fd)
                    except OSError:
                        pass
                _child(fn, tasks[idx], wfd, timeout)
            os.close(wfd)
            live[rfd] = [pid, idx, time.time(), []]
        if not live:
            break
        ready, _, _ = select.select(list(live), [], [], 0.25)
        now = time.time()
        for rfd in ready:
            ent = live[rfd]
            try:
                data = os.read(rfd, 1 << 20)
            except OSError:
                data = b""
            if data:
                ent[3].append(data)
                continue
            os.close(rfd)
            del live[rfd]
            try:
                os.waitpid(ent[0], 0)
            except ChildProcessError:
                pass
            blob = b"".join(ent[3])
            try:
                kind, val = pickle.loads(blob)
            except Exception:  # noqa: BLE001
                kind, val = "dead", f"child for task {ent[1]} returned {len(blob)} undecodable bytes"
            item = (ent[1], kind, val)
            results.append(item)
            if on_result:
                on_result(*item)
        for rfd in list(live):
            ent = live[rfd]
            if timeout and now - ent[2] > timeout:
                try:
                    os.kill(ent[0], signal.SIGKILL)
                except ProcessLookupError:
                    pass
                try:
                    os.waitpid(ent[0], 0)
                except ChildProcessError:
                    pass
                os.close(rfd)
                del live[rfd]
                item = (ent[1], "timeout", f"task {ent[1]} exceeded {timeout}s")
                results.append(item)
                if on_result:
                    on_result(*item)
    return results


def run_one(fn, task, timeout=300.0):
    res = run_tasks(fn, [task], workers=1, timeout=timeout)
    return res[0][1], res[0][2]
