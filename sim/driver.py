"""Batch driver shared by every property: seeded search over plans, violation -> minimise -> replay
file, known-findings filter, determinism self-test, evidence.

Exit codes: 0 = property held on everything explored (KNOWN-FINDING lines allowed),
            1 = VIOLATION line printed, 2 = harness error (never a pass, never a violation).
"""
import collections
import json
import os
import subprocess
import sys
import time

from sim import forkpool, kernel
from sim.kernel import HARNESS, PASS, REJECTED, VIOLATION

EVIDENCE_DIR = os.path.join(kernel.VERIF_ROOT, "evidence")
REPLAY_DIR = os.environ.get("VERIF_REPLAY_DIR") or os.path.join(kernel.VERIF_ROOT, "replays")
FINDINGS_FILE = os.path.join(kernel.VERIF_ROOT, "known_findings.json")


# ------------------------------------------------------------------------------------------------
def load_findings():
    try:
        with open(FINDINGS_FILE) as f:
            data = json.load(f)
    except FileNotFoundError:
        return []
    return data.get("findings", [])


def match_finding(findings, prop, res):
    """A violation matches a listed finding iff the oracle id is equal and every key of the
    finding's signature equals the same key of the violation's structural detail."""
    for f in findings:
        if f.get("status", "open") != "open":
            continue  # 'fixed' entries suppress nothing
        if f["property"] != prop or f["oracle"] != res.get("oracle"):
            continue
        sig = f.get("signature", {})
        det = res.get("detail", {})
        if all(det.get(k) == v for k, v in sig.items()):
            return f
    return None


# ------------------------------------------------------------------------------------------------
def _exec_wrapper(world):
    def run(plan):
        t0 = time.time()
        try:
            res = world.execute(plan)
        except kernel.Rejected as e:
            res = kernel.result(REJECTED, msg=str(e))
        except kernel.OracleFailure as e:
            res = kernel.result(VIOLATION, oracle=e.oracle, msg=e.msg, detail=e.detail)
        except BaseException as e:  # noqa: BLE001
            import traceback

            in_repo, where = kernel.classify_exception(e)
            txt = f"{type(e).__name__}: {e}"
            if in_repo:
                res = kernel.result(
                    VIOLATION,
                    oracle=f"{world.PROPERTY}.unexpected-exception",
                    msg=txt + " @ " + " < ".join(reversed(where)),
                    detail={"exc": type(e).__name__, "where": where[-1] if where else ""},
                )
            else:
                res = kernel.result(HARNESS, msg=txt + "\n" + traceback.format_exc())
        res["wall"] = time.time() - t0
        return res

    return run


def execute_plans(world, plans, workers, timeout, deadline=None, on_result=None):
    run = _exec_wrapper(world)
    raw = forkpool.run_tasks(run, plans, workers=workers, timeout=timeout, wall_deadline=deadline, on_result=on_result)
    out = {}
    for idx, kind, val in raw:
        if kind == "ok":
            out[idx] = val
        else:
            out[idx] = kernel.result(HARNESS, msg=f"{kind}: {val}")
    return out


def execute_one(world, plan, timeout):
    return execute_plans(world, [plan], 1, timeout)[0]


# ------------------------------------------------------------------------------------------------
def minimise(world, plan, res, budget_s, timeout, workers):
    """Delta-debug the plan while the same oracle id keeps failing."""
    oracle = res["oracle"]
    t_end = time.time() + budget_s
    best = plan
    tried = 0

    def still_fails(cands):
        nonlocal tried
        if not cands:
            return None
        rs = execute_plans(world, cands, workers, timeout, deadline=t_end)
        tried += len(cands)
        for i in sorted(rs):
            r = rs[i]
            if r["status"] == VIOLATION and r["oracle"] == oracle:
                return cands[i], r
        return None

    best_res = res
    # 1) step list: ddmin (faults first is the world's ordering concern; we remove chunks)
    changed = True
    while changed and time.time() < t_end:
        changed = False
        steps = best.get("steps", [])
        n = len(steps)
        chunk = max(1, n // 2)
        while chunk >= 1 and n > 0 and time.time() < t_end:
            cands = []
            for start in range(0, n, chunk):
                c = json.loads(json.dumps(best))
                c["steps"] = steps[:start] + steps[start + chunk :]
                cands.append(c)
            hit = still_fails(cands[:64])
            if hit:
                best, best_res = hit
                steps = best["steps"]
                n = len(steps)
                chunk = max(1, min(chunk, n // 2 or 1))
                changed = True
                if n == 0:
                    break
            else:
                if chunk == 1:
                    break
                chunk //= 2
        # 2) world-specific simplifications (operands, configuration)
        simp = getattr(world, "simplify", None)
        if simp and time.time() < t_end:
            progress = True
            while progress and time.time() < t_end:
                progress = False
                cands = list(simp(best))[:64]
                hit = still_fails(cands)
                if hit:
                    best, best_res = hit
                    progress = True
                    changed = True
    return best, best_res, tried


def write_replay(world, plan, res, tag):
    os.makedirs(REPLAY_DIR, exist_ok=True)
    path = os.path.join(REPLAY_DIR, f"{world.PROPERTY}-{plan['seed']}{tag}.json")
    doc = {
        "property": world.PROPERTY,
        "world": getattr(world, "WORLD", "?"),
        "seed": plan["seed"],
        "hashseed": kernel.HASHSEED,
        "oracle": res["oracle"],
        "message": res["msg"],
        "detail": res.get("detail", {}),
        "digest": res.get("digest", ""),
        "plan": plan,
    }
    with open(path, "w") as f:
        json.dump(kernel.canon(doc), f, indent=1, sort_keys=True)
    return path


def fresh_replay(path, timeout=600):
    """Re-execute a replay file in a fresh interpreter; returns (exit code, stdout)."""
    env = dict(os.environ)
    env["PYTHONHASHSEED"] = kernel.HASHSEED
    env["VERIF_NO_EVIDENCE"] = "1"
    p = subprocess.run(
        [sys.executable, os.path.join(kernel.VERIF_ROOT, "check.py"), "replay", path],
        capture_output=True,
        text=True,
        timeout=timeout,
        env=env,
        cwd=kernel.VERIF_ROOT,
    )
    return p.returncode, p.stdout + p.stderr


# ------------------------------------------------------------------------------------------------
def run_batch(world, tier, base_seed, n_runs, budget_s, workers=16, timeout=180.0, selftest=4):
    t0 = time.time()
    prop = world.PROPERTY
    if hasattr(world, "prepare"):
        world.prepare()
    findings = load_findings()
    deadline = t0 + budget_s if budget_s else None

    plans = []
    for i in range(n_runs):
        s = kernel.subseed(base_seed, prop, i)
        p = world.gen_plan(kernel.rng_for(s), i, tier)
        p.update({"property": prop, "seed": s, "index": i, "hashseed": kernel.HASHSEED})
        plans.append(p)

    counts = collections.Counter()
    stats = collections.Counter()
    probes = collections.Counter()
    sim = collections.Counter()
    sigs = set()
    samples = []
    violations = []
    harness = []
    known_hits = collections.OrderedDict()
    digests = {}

    def on_result(idx, kind, val):
        pass

    results = execute_plans(world, plans, workers, timeout, deadline=deadline, on_result=on_result)
    for idx in sorted(results):
        r = results[idx]
        counts[r["status"]] += 1
        for k, v in r.get("stats", {}).items():
            stats[k] += v
        for k, v in r.get("probes", {}).items():
            probes[k] += v
        for k, v in r.get("sim", {}).items():
            sim[k] += v
        digests[idx] = r.get("digest", "")
        if r["status"] in (PASS, VIOLATION) and r.get("nontrivial"):
            sigs.add(r.get("sig", ""))
        if r["status"] == PASS and len(samples) < 3 and r.get("nontrivial"):
            samples.append({"seed": plans[idx]["seed"], "plan": plans[idx], "events": r.get("nevents", 0)})
        for fid, cnt in (r.get("known") or {}).items():
            f = next((x for x in findings if x["id"] == fid), None)
            if f is not None:
                known_hits.setdefault(fid, [f, 0])[1] += cnt
        if r["status"] == VIOLATION:
            f = match_finding(findings, prop, r)
            if f is not None:
                known_hits.setdefault(f["id"], [f, 0])[1] += 1
            else:
                violations.append((idx, r))
        elif r["status"] == HARNESS:
            harness.append((idx, r))

    executed = len(results)

    # determinism self-test: re-run a sample (a) again here, (b) in a fresh interpreter with a
    # different hash seed.  Same hash seed + different digest = harness error.
    st_info = {"same_process_rerun": 0, "fresh_interpreter_other_hashseed": 0, "diverged_same": [], "diverged_other_hashseed": []}
    st_idx = [i for i in sorted(results) if results[i]["status"] == PASS][:selftest]
    if st_idx and (deadline is None or time.time() < deadline + 30):
        again = execute_plans(world, [plans[i] for i in st_idx], workers, timeout)
        for k, i in enumerate(st_idx):
            st_info["same_process_rerun"] += 1
            if again[k].get("digest") != digests[i]:
                st_info["diverged_same"].append(plans[i]["seed"])
        if os.environ.get("VERIF_SKIP_FRESH_SELFTEST") != "1":
            try:
                other = _fresh_digests(world, tier, base_seed, st_idx, "12345")
                for i in st_idx:
                    st_info["fresh_interpreter_other_hashseed"] += 1
                    if other.get(str(i)) != digests[i]:
                        st_info["diverged_other_hashseed"].append(plans[i]["seed"])
            except Exception as e:  # noqa: BLE001
                st_info["fresh_error"] = str(e)[:500]
    if st_info["diverged_same"]:
        harness.append((-1, kernel.result(HARNESS, msg=f"non-deterministic digest for seeds {st_info['diverged_same']}")))

    # violations: minimise, write replay, confirm in a fresh process
    reported = []
    for idx, r in violations[:3]:
        plan = plans[idx]
        mplan, mres, tried = minimise(world, plan, r, budget_s=min(240, max(60, budget_s // 4 if budget_s else 120)), timeout=timeout, workers=workers)
        path = write_replay(world, mplan, mres, "")
        try:
            code, out = fresh_replay(path)
        except Exception as e:  # noqa: BLE001
            code, out = -1, str(e)
        if code != 1 or mres["oracle"] not in out:
            # minimised file did not reproduce in a fresh process: report the un-minimised plan
            path = write_replay(world, plan, r, "-full")
            mres = r
        reported.append((path, mres, tried))

    wall = time.time() - t0
    ev = {
        "property_id": prop,
        "tier": tier,
        "seed": int(base_seed),
        "level": "exploration",
        "wall_s": round(wall, 2),
        "violations": len(violations),
        "coverage": {
            "evaluations": executed,
            "distinct_nontrivial": len(sigs),
            "rule": world.RULE,
            "samples": samples,
            "outcomes": dict(counts),
            "runs_per_hour": round(executed / wall * 3600) if wall > 0 else 0,
            "planned_runs": n_runs,
            "simulated": {k: round(v, 3) for k, v in sim.items()},
            "faults_and_ops_fired": dict(sorted(stats.items())),
            "reach_probes": dict(sorted(probes.items())),
            "determinism_selftest": st_info,
            "known_findings_hit": {k: v[1] for k, v in known_hits.items()},
            "harness_errors": len(harness),
            "real_components": world.REAL,
            "stubbed_components": world.STUB,
            "workers": workers,
        },
        "assumptions": world.ASSUMPTIONS,
    }
    if os.environ.get("VERIF_NO_EVIDENCE") != "1":
        os.makedirs(EVIDENCE_DIR, exist_ok=True)
        with open(os.path.join(EVIDENCE_DIR, f"{prop}.json"), "w") as f:
            json.dump(kernel.canon(ev), f, indent=1, sort_keys=True)

    for fid, (f, n) in known_hits.items():
        print(f"KNOWN-FINDING: property={prop} {f['id']}: {f['what']} (hit {n}x)")
    print(
        f"[{prop}] tier={tier} seed={base_seed} runs={executed}/{n_runs} pass={counts[PASS]} "
        f"violation={len(violations)} known-finding-runs={counts[VIOLATION] - len(violations)} rejected={counts[REJECTED]} harness={len(harness)} "
        f"distinct={len(sigs)} wall={wall:.1f}s"
    )
    if harness:
        for idx, r in harness[:5]:
            seed = plans[idx]["seed"] if idx >= 0 else "-"
            print(f"HARNESS-ERROR property={prop} seed={seed} index={idx}: {r['msg'][:2000]}", file=sys.stderr)
    if reported:
        for path, r, tried in reported:
            print(f"VIOLATION property={prop} replay={path}")
            print(f"  oracle={r['oracle']} :: {r['msg'][:1500]}")
        return 1
    if harness:
        return 2
    if executed == 0:
        print(f"HARNESS-ERROR property={prop}: no run executed", file=sys.stderr)
        return 2
    return 0


def _fresh_digests(world, tier, base_seed, idxs, hashseed):
    env = dict(os.environ)
    env["PYTHONHASHSEED"] = hashseed
    env["VERIF_NO_EVIDENCE"] = "1"
    p = subprocess.run(
        [
            sys.executable,
            os.path.join(kernel.VERIF_ROOT, "check.py"),
            "digests",
            world.PROPERTY,
            tier,
            str(base_seed),
            ",".join(str(i) for i in idxs),
        ],
        capture_output=True,
        text=True,
        timeout=900,
        env=env,
        cwd=kernel.VERIF_ROOT,
    )
    for line in p.stdout.splitlines():
        if line.startswith("DIGESTS "):
            return json.loads(line[8:])
    raise RuntimeError(f"fresh digest run failed: {p.stdout[-500:]} {p.stderr[-500:]}")


def digests_for(world, tier, base_seed, idxs, workers=8, timeout=180.0):
    if hasattr(world, "prepare"):
        world.prepare()
    plans = []
    for i in idxs:
        s = kernel.subseed(base_seed, world.PROPERTY, i)
        p = world.gen_plan(kernel.rng_for(s), i, tier)
        p.update({"property": world.PROPERTY, "seed": s, "index": i, "hashseed": kernel.HASHSEED})
        plans.append(p)
    rs = execute_plans(world, plans, workers, timeout)
    return {str(i): rs[k].get("digest", "") for k, i in enumerate(idxs)}


def replay(world, path, timeout=600.0):
    with open(path) as f:
        doc = json.load(f)
    if hasattr(world, "prepare"):
        world.prepare()
    plan = doc["plan"]
    res = execute_one(world, plan, timeout)
    prop = world.PROPERTY
    if res["status"] == VIOLATION:
        f = match_finding(load_findings(), prop, res)
        if f is not None:
            print(f"KNOWN-FINDING: property={prop} {f['id']}: {f['what']}")
            return 0
        print(f"VIOLATION property={prop} replay={path}")
        print(f"  oracle={res['oracle']} :: {res['msg'][:1500]}")
        return 1
    if res["status"] == HARNESS:
        print(f"HARNESS-ERROR property={prop}: {res['msg'][:2000]}", file=sys.stderr)
        return 2
    print(f"[{prop}] replay {os.path.basename(path)}: {res['status']} (no violation)")
    return 0
