"""Developer aid: run N plans of a property and print every non-pass outcome (not a registered check)."""
import os, sys, json, collections
sys.path.insert(0, os.path.dirname(os.path.abspath(__file__)))
from sim import kernel, driver
import check
prop = sys.argv[1]; n = int(sys.argv[2]); tier = sys.argv[3] if len(sys.argv) > 3 else "quick"
base = int(os.environ.get("VERIF_SEED", "0"))
world = check.load_world(prop)
if hasattr(world, "prepare"): world.prepare()
plans = []
for i in range(n):
    s = kernel.subseed(base, prop, i)
    p = world.gen_plan(kernel.rng_for(s), i, tier)
    p.update({"property": prop, "seed": s, "index": i, "hashseed": "0"})
    plans.append(p)
rs = driver.execute_plans(world, plans, 16, 300)
c = collections.Counter()
for i in sorted(rs):
    r = rs[i]
    c[(r["status"], r.get("oracle"))] += 1
    if r["status"] != "pass":
        print(i, plans[i]["seed"], r["status"], r.get("oracle"), r["msg"][:int(os.environ.get("W", "400"))])
print(c)
