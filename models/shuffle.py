"""Reference model for C14: inventory ledger + location map.  Plain Python, no armi imports.

Objects are small integer handles.  Blocks designated stationary belong to a core *location*
(they keep their core position and exchange assemblies); every other block belongs to its assembly.
"""


class Model:
    def __init__(self, track):
        self.track = track
        self.loc = {}  # (i, j) -> assembly handle
        self.pool = []  # handles in the spent-fuel pool
        self.purged = set()
        self.charged = set()
        self.initial = set()
        self.blocks = {}  # assembly handle -> [block handle] bottom to top
        self.stationary = set()  # block handles designated stationary

    def where(self, a):
        for k, v in self.loc.items():
            if v == a:
                return k
        return None

    def _exchange_stationary(self, a, b):
        la, lb = self.blocks[a], self.blocks[b]
        for k in range(min(len(la), len(lb))):
            if la[k] in self.stationary and lb[k] in self.stationary:
                la[k], lb[k] = lb[k], la[k]

    def stationary_compatible(self, a, b):
        ka = [k for k, x in enumerate(self.blocks[a]) if x in self.stationary]
        kb = [k for k, x in enumerate(self.blocks[b]) if x in self.stationary]
        return ka == kb

    def swap(self, a, b):
        if a == b:
            return  # moving an assembly onto its own location changes nothing
        pa, pb = self.where(a), self.where(b)
        self._exchange_stationary(a, b)
        self.loc[pa], self.loc[pb] = b, a

    def cascade(self, lst):
        first = lst[0]
        for nxt in lst[1:]:
            if nxt is None:
                continue
            self.swap(first, nxt)

    def discharge(self, incoming, outgoing, fresh):
        p = self.where(outgoing)
        self._exchange_stationary(incoming, outgoing)
        del self.loc[p]
        if self.track:
            self.pool.append(outgoing)
        else:
            self.purged.add(outgoing)
        if incoming in self.pool:
            self.pool.remove(incoming)
        if fresh:
            self.charged.add(incoming)
        self.loc[p] = incoming

    def add(self, a, p):
        self.charged.add(a)
        self.loc[p] = a

    def remove(self, a, discharge):
        p = self.where(a)
        del self.loc[p]
        if discharge and self.track:
            self.pool.append(a)
        else:
            self.purged.add(a)

    def present(self):
        return set(self.loc.values()) | set(self.pool)

    def ledger_ok(self):
        return self.present() == (self.initial | self.charged) - self.purged
