"""Reference scheduler for C15: what a standard run must call, in which order, with which time state.

Plain Python, shares no code with armi and imports nothing from it.  Input is the explicit
configuration of a run; output is the expected nested event list.

An event is a dict: {depth, hook, iface, args, cycle, node, iter, step, power}
(step / power are None where the statement does not fix them).
"""


def expand_repeats(lst):
    out = []
    for v in lst:
        if isinstance(v, str) and "R" in v.upper():
            n = int(v.upper().replace("R", ""))
            out += [out[-1]] * n
        else:
            out.append(float(v))
    return out


def expand_history(cs):
    """cs: raw cycle-history settings.  Returns dict with per-cycle lists."""
    n = int(cs["nCycles"])
    if cs.get("cycles"):
        cyc = cs["cycles"]
        avail = [float(c.get("availability factor", 1)) for c in cyc]
        steps = []
        for i, c in enumerate(cyc):
            if "step days" in c:
                steps.append(expand_repeats(c["step days"]))
            elif "cumulative days" in c:
                prev = 0.0
                s = []
                for v in c["cumulative days"]:
                    s.append(float(v) - prev)
                    prev = float(v)
                steps.append(s)
            else:
                bs = int(c["burn steps"])
                steps.append([float(c["cycle length"]) * avail[i] / bs] * bs if bs else [])
        # a stated cycle length is the cycle length (also with no burn steps or zero availability)
        lengths = [float(c["cycle length"]) if "cycle length" in c else sum(s) / a for c, s, a in zip(cyc, steps, avail)]
        pfs = []
        for i, c in enumerate(cyc):
            if "power fractions" in c:
                pfs.append(expand_repeats(c["power fractions"]))
            else:
                pfs.append([1.0] * len(steps[i]))
        names = [c.get("name") for c in cyc]
    else:
        if cs.get("availabilityFactors"):
            avail = expand_repeats(cs["availabilityFactors"])
        else:
            avail = [float(cs.get("availabilityFactor", 1.0))] * n
        if cs.get("cycleLengths"):
            lengths = expand_repeats(cs["cycleLengths"])
        else:
            lengths = [float(cs.get("cycleLength", 365.242199))] * n
        bs = cs.get("burnSteps", 4)
        if bs:
            steps = [[l * a / bs] * bs for l, a in zip(lengths, avail)]
        else:
            steps = [[]]
        if cs.get("powerFractions"):
            per = expand_repeats(cs["powerFractions"])
        else:
            per = [1.0] * n
        pfs = [[p] * (bs or 0) for p in per]
        names = [None] * n
    return {
        "nCycles": n,
        "avail": avail,
        "lengths": lengths,
        "steps": steps,
        "burnSteps": [len(s) for s in steps],
        "pfs": pfs,
        "names": names,
    }


def stack_order(infos):
    """infos: list of (order, name[, function, mro]) in the order the plugin hooks returned them.
    The documented rules: sorted by ORDER, ties keep their exposure order; two interfaces may not
    share a function - the more derived class wins (a less derived newcomer is ignored, a more
    derived newcomer replaces the one in the stack and goes to the end)."""
    idx = sorted(range(len(infos)), key=lambda i: (infos[i][0], i))
    stack = []
    for i in idx:
        inf = infos[i]
        name = inf[1]
        fn = inf[2] if len(inf) > 2 else None
        mro = inf[3] if len(inf) > 3 else [name]
        clash = None
        if fn is not None:
            clash = next((k for k, e in enumerate(stack) if e[1] == fn), None)
        if clash is not None:
            omro = stack[clash][2]
            if mro[0] in omro:  # the one in the stack is the same class or more derived
                continue
            if omro[0] in mro:  # the newcomer derives from it
                stack.pop(clash)
            else:
                raise ValueError(f"two unrelated interfaces with function {fn}")
        stack.append((name, fn, mro))
    return [e[0] for e in stack]


class Sched:
    """cfg keys:
    stack      : [ {name, enabled, bolForce, reverseAtEOL, coupler(bool)} ] in stack order
    deferred   : [names], deferredCycle : int
    hist       : expand_history(...) result
    power      : float (cs power)
    coupling   : {active: bool, maxIters: int, skip: [cycles]}
    halts      : set of (name, hook, cycle, node, iter) with truthy return (None = n/a)
    conv       : {name: {(cycle,node): [bool per iteration]}}  default (missing) -> converged
    start      : (cycle, node), restart : bool, prev : (cycle,node) loaded on restart
    halt_short_circuit : False (the statement: every active interface is called once)
    """

    def __init__(self, cfg):
        self.c = cfg
        self.ev = []
        self.step = None
        self.power = None

    # active-interface rules, written from the statement
    def active(self, hook, cycle=0, excluded=()):
        out = []
        for s in self.c["stack"]:
            on = s["enabled"] or (hook == "BOL" and s["bolForce"])
            if not on:
                continue
            if hook in ("EveryNode", "EOC", "EOL", "BOL") and s["name"] in excluded:
                continue
            if hook == "BOL" and s["name"] in self.c["deferred"]:
                continue
            if hook == "BOC" and cycle < self.c["deferredCycle"] and s["name"] in self.c["deferred"]:
                continue
            out.append(s)
        if hook == "EOL":
            out = [s for s in out if not s["reverseAtEOL"]] + list(
                reversed([s for s in out if s["reverseAtEOL"]])
            )
        return out

    def emit(self, depth, hook, s, args, cycle, node, it=None, step=None, power=None):
        self.ev.append(
            {
                "depth": depth,
                "hook": hook,
                "iface": s["name"],
                "args": list(args),
                "cycle": cycle,
                "node": node,
                "iter": it,
                "step": step,
                "power": power,
            }
        )

    def is_halt(self, name, hook, cycle=None, node=None, it=None):
        return (name, hook, cycle, node, it) in self.c["halts"]

    def run(self):
        c = self.c
        h = c["hist"]
        sc, sn = c["start"]
        # ---- BOL
        for s in self.active("BOL"):
            if c["restart"] and s["name"] == "main":
                self.emit(0, "BOL", s, [], 0, 0)
                if sn == 0:
                    pc, pn = c["prev"]
                    for t in self.active("EOC"):
                        self.emit(1, "EOC", t, [pc], pc, pn)
            else:
                self.emit(0, "BOL", s, [], sc if c["restart"] else 0, sn if c["restart"] else 0)
        # ---- cycles
        cyc, node = sc, sn
        last = (sc, sn)
        for cyc in range(sc, h["nCycles"]):
            first = sn if cyc == sc else 0
            halt = False
            for s in self.active("BOC", cycle=cyc):
                self.emit(0, "BOC", s, [cyc], cyc, first)
                if self.is_halt(s["name"], "BOC", cyc):
                    halt = True
            last = (cyc, first)
            if halt:
                break
            bs = h["burnSteps"][cyc]
            for node in range(first, bs + 1):
                if node < bs:
                    step = h["steps"][cyc][node]
                    power = h["pfs"][cyc][node] * c["power"]
                else:
                    step = None
                    power = (h["pfs"][cyc][node - 1] if bs else 1) * c["power"]
                for s in self.active("EveryNode"):
                    self.emit(0, "EveryNode", s, [cyc, node], cyc, node, None, step, power)
                self.coupled(cyc, node)
                last = (cyc, node)
            # a restart beyond the last node still does the last node (documented for-else)
            if first > bs:
                node = bs
                power = (h["pfs"][cyc][node - 1] if bs else 1) * c["power"]
                for s in self.active("EveryNode"):
                    self.emit(0, "EveryNode", s, [cyc, node], cyc, node, None, None, power)
                self.coupled(cyc, node)
                last = (cyc, node)
            for s in self.active("EOC"):
                self.emit(0, "EOC", s, [cyc], cyc, last[1])
        # ---- EOL
        for s in self.active("EOL"):
            self.emit(0, "EOL", s, [], last[0], last[1])
        return self.ev

    def coupled(self, cyc, node):
        cp = self.c["coupling"]
        if not cp["active"] or cyc in cp["skip"]:
            return
        for it in range(cp["maxIters"]):
            act = self.active("Coupled")
            for s in act:
                self.emit(0, "Coupled", s, [it], cyc, node, it + 1)
            conv = True
            for s in act:
                if s.get("coupler"):
                    script = self.c["conv"].get(s["name"], {}).get((cyc, node))
                    if script is None:
                        ok = True
                    else:
                        ok = script[it] if it < len(script) else script[-1] if script else True
                    conv = conv and ok
            if conv:
                break


def node_numbering(hist):
    """Independent arithmetic for the (cycle,node) <-> cumulative conversions."""
    nodes = []
    for c, bs in enumerate(hist["burnSteps"]):
        for n in range(bs + 1):
            nodes.append((c, n))
    return nodes
